#!/venv/bin/python
"""Regenerates MANIFEST.json from the table below (kept as code so it stays consistent)."""
import json, os
ROOT = os.path.dirname(os.path.abspath(__file__))
BASE = "cd /repo && /venv/bin/python -m pytest -ra -q -p no:cacheprovider --timeout=900 --continue-on-collection-errors"
CHECKS = {}
NA = {}
def chk(pid, cat, technique, text, note, ref):
    CHECKS[pid] = dict(property_id=pid, quick_cmd="./check %s --tier quick" % pid,
        thorough_cmd="./check %s --tier thorough" % pid, evidence_file="evidence/%s.json" % pid,
        replay_cmd_template="./check %s --replay {path}" % pid, engine="mc",
        level_claimed=dict(category=cat, text=text, design_ref=ref), level_note=note, technique=technique)
exec(open(os.path.join(ROOT, "manifest_table.py")).read())
allp = [json.loads(l)["id"] for l in open(os.path.join(ROOT, "properties.jsonl"))]
for p in allp:
    if p not in CHECKS and p not in NA:
        NA[p] = "check not built yet in this session (work in progress; see DESIGN.md section 12)"
m = dict(version=1,
    setup_cmd="true",
    hooks=dict(guard="INDIPY_VERIF", enable="no build step: checks import /repo's working tree directly (sys.path); the guard is exported by ./check but no source commit uses it", baseline_off_cmd=BASE, source_commits=[], add_only=True),
    engines=[dict(name="mc", path="mc/", serves_properties=sorted(CHECKS), kind_free_text="hand-written explicit-state / schedule / bounded-exhaustive explorers in Python driving the real library; TLC for the router model")],
    checks=[CHECKS[p] for p in allp if p in CHECKS],
    not_applicable=[dict(property_id=p, reason=NA[p]) for p in allp if p in NA],
    notes="See DESIGN.md. Exit codes: 0 held / 1 VIOLATION / 2 harness error.")
json.dump(m, open(os.path.join(ROOT, "MANIFEST.json"), "w"), indent=1)
print("checks:", len(m["checks"]), "not_applicable:", len(m["not_applicable"]))
