chk("C20", "exploration", "bounded-exhaustive enumeration of message structures x single-point perturbations on the real classes",
    "Every structure of the message grammar (21 kinds x all optional-attribute subsets x 0..3 children) and every single-point perturbation of it is built with the real constructors and compared with ==/!= in both orders; rebuilt copies must be equal. Exhaustive within the stated grammar bound.",
    "Values outside the lexical-class alphabet, >3 children and >1 simultaneous perturbation are not enumerated.", "DESIGN.md section 4 C20")
