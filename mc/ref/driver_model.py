"""E4: what a generated driver definition DECLARES, and how its live state must look to a peer.

The declared structure comes from the plain-data spec (mc.gen.drivers) - i.e. from the whole
class chain - never from the library's own group collection.  Live values are read through
the driver's public attributes (.value, .state_, .enabled).
"""
from fractions import Fraction

from mc.ref import indi_numbers as N

KINDTAG = {"text": "Text", "number": "Number", "switch": "Switch", "light": "Light", "blob": "BLOB"}


class Missing(Exception):
    pass


def live_group(dev, gspec):
    g = getattr(dev, gspec["attr"], None)
    if g is None:
        raise Missing("driver does not expose declared group %r" % gspec["attr"])
    return g


def live_vector(dev, gspec, vspec):
    g = live_group(dev, gspec)
    v = g.vectors.get(vspec["attr"])
    if v is None:
        raise Missing("group %r has no vector %r" % (gspec["attr"], vspec["attr"]))
    return v


def elvalue(kind, el):
    v = el.value
    if kind == "blob":
        return None if v is None else (bytes(v.binary), v.format)
    return v


def truth(spec, dev):
    """{vector name: dict(kind, enabled, state, group, label, perm, rule, elements={name: dict(value, enabled, label, format..)})}
    for every DECLARED vector; raises Missing if the driver lost a declared group."""
    out = {}
    for g in spec["groups"]:
        for v in g["vectors"]:
            lv = live_vector(dev, g, v)
            els = {}
            for e in v["elements"]:
                le = getattr(lv, e["attr"])
                els[e["name"]] = dict(value=elvalue(v["kind"], le), enabled=le.enabled, label=e.get("label") or e["name"], spec=e)
            out[v["name"]] = dict(
                kind=v["kind"],
                enabled=bool(lv.enabled),
                state=lv.state_,
                group=g["name"],
                label=v.get("label") or v["name"],
                perm=None if v["kind"] == "light" else v.get("perm", "rw"),
                rule=v.get("rule", "OneOfMany") if v["kind"] == "switch" else None,
                elements=els,
                spec=v,
            )
    return out


def number_matches(text, value, fmt):
    """does the number text denote value within the format's resolution?"""
    d = N.denotes(text) if text is not None else None
    if d is None:
        return False
    try:
        unit = N.resolution_at(fmt, Fraction(value))
    except Exception:
        unit = Fraction(1, 10**6)
    return abs(d - Fraction(value)) <= unit


def check_def_view(view, devname, t):
    """compare the xmlview of a def*Vector with the truth entry t of that vector; returns list of problems"""
    probs = []
    tag, attrs, text, children = view
    a = dict(attrs)
    K = KINDTAG[t["kind"]]
    if tag != "def%sVector" % K:
        return ["tag %s for a %s vector" % (tag, t["kind"])]
    want = dict(device=devname, name=t["spec"]["name"], state=t["state"], group=t["group"], label=t["label"])
    if t["perm"]:
        want["perm"] = t["perm"]
    if t["rule"]:
        want["rule"] = t["rule"]
    for k, v in want.items():
        if a.get(k) != v:
            probs.append("attr %s=%r, expected %r" % (k, a.get(k), v))
    en = [(n, e) for n, e in t["elements"].items() if e["enabled"]]
    if [c[1] and dict(c[1]).get("name") for c in children] != [n for n, _ in en]:
        probs.append("elements %r, expected %r" % ([dict(c[1]).get("name") for c in children], [n for n, _ in en]))
        return probs
    for (ct, ca, ctext), (n, e) in zip(children, en):
        ca = dict(ca)
        if ct != "def" + K:
            probs.append("child tag %s" % ct)
        if ca.get("label") != e["label"]:
            probs.append("element %s label %r, expected %r" % (n, ca.get("label"), e["label"]))
        probs += check_value(t["kind"], n, ctext, ca, e, is_def=True)
        if t["kind"] == "number":
            sp = e["spec"]
            if ca.get("format") != sp.get("format", "%f"):
                probs.append("element %s format %r" % (n, ca.get("format")))
            for k in ("min", "max", "step"):
                if ca.get(k) is None:
                    probs.append("element %s lacks %s" % (n, k))
                elif k in sp:
                    # the declared limit, as a number (whatever notation the definition uses for it)
                    d = N.denotes(str(ca[k]))
                    want_k = Fraction(sp[k])
                    if d is None or abs(d - want_k) > abs(want_k) * Fraction(1, 10**12):
                        probs.append("element %s %s %r, declared %r" % (n, k, ca[k], sp[k]))
    return probs


def check_value(kind, n, ctext, ca, e, is_def=False):
    v = e["value"]
    if kind == "number":
        fmt = e["spec"].get("format", "%f")
        if not number_matches(ctext, v, fmt):
            return ["element %s number text %r does not denote %r (format %s)" % (n, ctext, v, fmt)]
        return []
    if kind == "blob":
        if is_def:
            return []
        import base64

        if v is None:
            if ctext is not None:
                return ["element %s carries a payload but the driver has no BLOB" % n]
            return []
        try:
            raw = base64.b64decode(ctext or "")
        except Exception:
            return ["element %s payload is not base64" % n]
        if raw != v[0] or ca.get("format") != v[1] or str(ca.get("size")) != str(len(v[0])):
            return ["element %s BLOB differs (size %r format %r)" % (n, ca.get("size"), ca.get("format"))]
        return []
    want = v if v != "" else None
    if ctext != want:
        return ["element %s value %r, expected %r" % (n, ctext, want)]
    return []


def check_set_view(view, devname, t):
    probs = []
    tag, attrs, text, children = view
    a = dict(attrs)
    K = KINDTAG[t["kind"]]
    if tag != "set%sVector" % K:
        return ["tag %s for a %s vector" % (tag, t["kind"])]
    for k, v in dict(device=devname, name=t["spec"]["name"], state=t["state"]).items():
        if a.get(k) != v:
            probs.append("attr %s=%r, expected %r" % (k, a.get(k), v))
    en = [(n, e) for n, e in t["elements"].items() if e["enabled"]]
    if [dict(c[1]).get("name") for c in children] != [n for n, _ in en]:
        probs.append("elements %r, expected %r" % ([dict(c[1]).get("name") for c in children], [n for n, _ in en]))
        return probs
    for (ct, ca, ctext), (n, e) in zip(children, en):
        probs += check_value(t["kind"], n, ctext, dict(ca), e)
    return probs


def blob_equiv(client_val, driver_val):
    """client view of a BLOB element vs the driver's value.  An unset driver BLOB is published as an
    empty oneBLOB without format, which a client cannot tell from 'no value'."""
    if driver_val is None:
        return client_val is None or client_val == (b"", "") or client_val == (b"", None)
    return client_val == driver_val


REFRESH = {"text": "refreshed", "number": 77.5, "switch": "On", "light": "Alert"}


def read_refresh_handlers(kind):
    """handler factory for mc.gen.drivers.build_class: a plain Read handler on element A of the target vector that
    refreshes the element from 'the hardware' (reset_value), as the Read event is documented to be used"""
    from indi.device.events import Read, on

    def factory(defs):
        el = defs["g1"].vectors["t"].elements["a"]

        def refresh(self, event):
            event.element.reset_value(REFRESH[kind])

        return {"refresh_a": on(el, Read)(refresh)}

    return factory


def write_veto_handlers(kind):
    """handler factory: a plain Write handler on element A of the target vector that defers the change
    (event.prevent_default, as the Write event documents for hardware that confirms later) and never confirms it:
    the device keeps its value and publishes nothing, so every client - the writer included - must keep showing it"""
    from indi.device.events import Write, on

    def factory(defs):
        el = defs["g1"].vectors["t"].elements["a"]

        def defer(self, event):
            event.prevent_default = True

        return {"defer_a": on(el, Write)(defer)}

    return factory
