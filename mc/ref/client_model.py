"""E4: reference interpreter of the INDI client rules (independent of indi.client).

Mirror state: {device: {property: Prop}}; a device exists from its first definition until a
delProperty without a name.  Input: the independent structural view of a message
(mc.ref.xmlview).  Output of step(): list of events the message must raise, and a list of
events it may additionally raise (I-2).
Event = (type, device, property, element-or-None, old, new)
"""
import base64

KIND_OF = {"Text": "Text", "Number": "Number", "Switch": "Switch", "Light": "Light", "BLOB": "BLOB"}


class Prop:
    __slots__ = ("kind", "state", "label", "group", "elements", "labels", "incarnation")

    def __init__(self, kind, state, label, group):
        self.kind, self.state, self.label, self.group = kind, state, label, group
        self.elements = {}  # name -> value (insertion ordered)
        self.labels = {}
        self.incarnation = 0

    def key(self):
        return (self.kind, self.state, self.label, self.group, tuple(self.elements.items()), tuple(self.labels.items()))


def blob_value(text, attrs):
    """value of a oneBLOB: (bytes, format); empty/absent payload -> 'EMPTY' marker (None or empty BLOB accepted)"""
    fmt = attrs.get("format")
    if text is None:
        return ("EMPTY", fmt)
    try:
        raw = base64.b64decode("".join(text.split()), validate=True)  # line wrapping inside the payload is legal
        declared = int(attrs.get("size"))
    except Exception:
        return ("ANY",)  # undecodable payload / non-numeric size: the element may keep its value or not
    if declared != len(raw):
        return ("ANY",)  # inconsistent size: likewise not judged
    return (raw, fmt)


class Mirror:
    def __init__(self):
        self.devices = {}

    def key(self):
        return tuple((d, tuple((p, pr.key()) for p, pr in props.items())) for d, props in self.devices.items())

    def canon(self):
        return tuple(sorted((d, tuple(sorted((p, pr.key()) for p, pr in props.items()))) for d, props in self.devices.items()))

    def copy(self):
        m = Mirror()
        for d, props in self.devices.items():
            m.devices[d] = {}
            for p, pr in props.items():
                q = Prop(pr.kind, pr.state, pr.label, pr.group)
                q.elements = dict(pr.elements)
                q.labels = dict(pr.labels)
                m.devices[d][p] = q
        return m

    def step(self, view):
        """apply one message view; returns (must_events, may_events)"""
        tag, attrs, text, children = view
        a = dict(attrs)
        must, may = [], []
        for K in KIND_OF:
            if tag == "def%sVector" % K:
                dev, name = a["device"], a["name"]
                props = self.devices.setdefault(dev, {})
                pr = Prop(K, a["state"], a.get("label"), a.get("group"))
                for ct, ca, ctext in children:
                    ca = dict(ca)
                    val = None if K == "BLOB" else ctext
                    pr.elements[ca["name"]] = val
                    pr.labels[ca["name"]] = ca.get("label")
                    must.append(("ValueUpdate", dev, name, ca["name"], None, val))
                props[name] = pr
                must.append(("StateUpdate", dev, name, None, None, a["state"]))
                must.append(("DefinitionUpdate", dev, name, None, None, None))
                return must, may
            if tag == "set%sVector" % K:
                dev, name = a["device"], a["name"]
                pr = self.devices.get(dev, {}).get(name)
                if pr is None or pr.kind != K:
                    return must, may
                if a["state"] != pr.state:
                    must.append(("StateUpdate", dev, name, None, pr.state, a["state"]))
                    pr.state = a["state"]
                for ct, ca, ctext in children:
                    ca = dict(ca)
                    en = ca["name"]
                    if en not in pr.elements:
                        continue
                    old = pr.elements[en]
                    new = blob_value(ctext, ca) if K == "BLOB" else ctext
                    if K == "BLOB" and (new[0] == "ANY" or (old is not None and old[0] == "ANY")):
                        may.append(("ValueUpdate", dev, name, en, old, new))
                    elif K == "BLOB":
                        empty_old = old is None or old[0] == "EMPTY"
                        if new[0] == "EMPTY" and empty_old:
                            may.append(("ValueUpdate", dev, name, en, old, new))  # no BLOB before, none now
                        elif new != old:
                            must.append(("ValueUpdate", dev, name, en, old, new))
                        else:
                            may.append(("ValueUpdate", dev, name, en, old, new))  # I-2
                    elif new != old:
                        must.append(("ValueUpdate", dev, name, en, old, new))
                    pr.elements[en] = new
                return must, may
        if tag == "delProperty":
            dev = a["device"]
            if "name" in a:
                self.devices.get(dev, {}).pop(a["name"], None)
            else:
                self.devices.pop(dev, None)
        return must, may
