"""E4: independent structural view of one protocol element.

view = (tag, attrs(sorted tuple of (k, v)), text-or-None, children(tuple of (tag, attrs, text)))

Three routes to a view:
  * view_of_desc(desc)     from the generator's abstract description
  * view_of_xml(text)      from bytes/str, via xml.dom.minidom (NOT ElementTree, NOT indi)
  * view_of_msg(obj)       from a library message object, through public attributes only,
                           using the attribute table of mc.gen.messages (not obj.__dict__)
The library's == is never used.
"""
from xml.dom import minidom

from mc.gen.messages import KINDS, PARTS


def _norm_text(t):
    if t is None:
        return None
    t = str(t).strip()
    return t if t != "" else None


def view_of_desc(desc):
    tag, attrs, text, children = desc
    return (
        tag,
        tuple(sorted((k, str(v)) for k, v in attrs)),
        _norm_text(text),
        tuple((ct, tuple(sorted((k, str(v)) for k, v in ca)), _norm_text(ctext)) for ct, ca, ctext in children),
    )


def _dom_text(node):
    parts = []
    for c in node.childNodes:
        if c.nodeType in (c.TEXT_NODE, c.CDATA_SECTION_NODE):
            parts.append(c.data)
    return "".join(parts)


def _dom_elem(node, with_children):
    attrs = tuple(sorted((k, v) for k, v in node.attributes.items()))
    kids = [c for c in node.childNodes if c.nodeType == c.ELEMENT_NODE]
    if with_children:
        # message level: text = character data before the first child element
        lead = []
        for c in node.childNodes:
            if c.nodeType == c.ELEMENT_NODE:
                break
            if c.nodeType in (c.TEXT_NODE, c.CDATA_SECTION_NODE):
                lead.append(c.data)
        text = _norm_text("".join(lead))
        return (node.tagName, attrs, text, tuple(_dom_elem(k, False) for k in kids))
    return (node.tagName, attrs, _norm_text(_dom_text(node)))


def view_of_xml(data):
    if isinstance(data, str):
        # minidom wants bytes or an undeclared str; encode to utf-8 and let it decode
        data = data.encode("utf-8")
    doc = minidom.parseString(data)
    return _dom_elem(doc.documentElement, True)


class NotViewable(Exception):
    pass


def _tag_of(obj):
    n = type(obj).__name__
    return n[:1].lower() + n[1:]


def view_of_msg(msg):
    tag = _tag_of(msg)
    k = KINDS.get(tag)
    if k is None:
        if tag == "oneLight":  # top-level oneLight "message" registered by the library
            return (tag, (("name", str(msg.name)),), _norm_text(getattr(msg, "value", None)), ())
        raise NotViewable(tag)
    attrs = []
    for n, _ in k.req + k.opt:
        v = getattr(msg, n, None)
        if v is not None:
            attrs.append((n, str(v)))
    text = _norm_text(getattr(msg, "value", None)) if k.text else None
    children = []
    if k.child:
        for ch in getattr(msg, "children", None) or ():
            children.append(view_of_part(ch))
    return (tag, tuple(sorted(attrs)), text, tuple(children))


def view_of_part(part):
    tag = _tag_of(part)
    p = PARTS.get(tag)
    if p is None:
        raise NotViewable(tag)
    attrs = []
    for n, _ in p.req + p.opt:
        v = getattr(part, n, None)
        if v is not None:
            attrs.append((n, str(v)))
    text = _norm_text(getattr(part, "value", None)) if p.text else None
    return (tag, tuple(sorted(attrs)), text)


def split_elements(text):
    """Independent splitter of an output stream into top-level elements (as strings).
    Scans tags with a tiny state machine: handles declarations/PIs, comments, CDATA,
    quoted attribute values, self-closing tags.  Returns (elements, trailing_garbage)."""
    i, n = 0, len(text)
    depth = 0
    start = None
    out = []
    junk = []
    while i < n:
        if text.startswith("<?", i):
            j = text.find("?>", i)
            if j < 0:
                break
            i = j + 2
            continue
        if text.startswith("<!--", i):
            j = text.find("-->", i)
            if j < 0:
                break
            i = j + 3
            continue
        if text.startswith("<![CDATA[", i):
            j = text.find("]]>", i)
            if j < 0:
                break
            i = j + 3
            continue
        ch = text[i]
        if ch == "<":
            closing = text.startswith("</", i)
            j = i + 1
            quote = None
            while j < n:
                c = text[j]
                if quote:
                    if c == quote:
                        quote = None
                elif c in "\"'":
                    quote = c
                elif c == ">":
                    break
                j += 1
            if j >= n:
                break
            selfclose = text[j - 1] == "/"
            if closing:
                depth -= 1
                if depth == 0 and start is not None:
                    out.append(text[start : j + 1])
                    start = None
            else:
                if depth == 0:
                    start = i
                if selfclose:
                    if depth == 0:
                        out.append(text[start : j + 1])
                        start = None
                else:
                    depth += 1
            i = j + 1
            continue
        if depth == 0 and not ch.isspace():
            junk.append(ch)
        i += 1
    rest = "".join(junk)
    if start is not None:
        rest += text[start:]
    return out, rest
