"""E4: reference for INDI number text, written from the INDI white paper and the
fs_sexa / f_scansexa conventions of libindi (sign applies to the whole magnitude; fields
separated by ':', ';' or blank; the last field may carry a decimal fraction).
Exact rational arithmetic.  Does not import indi.
"""
import re
from fractions import Fraction

_NUM = r"(?:\d+\.?\d*|\.\d+)"
_RE = re.compile(r"^([+-]?)(" + _NUM + r")(?:[:; ](" + _NUM + r"))?(?:[:; ](" + _NUM + r"))?$")


def denotes(text):
    """Fraction denoted by an INDI number text, or None if it is not number text."""
    if text is None:
        return None
    t = text.strip()
    m = _RE.match(t)
    if not m:
        # plain printf output with exponent is also a number
        try:
            if re.match(r"^[+-]?(\d+\.?\d*|\.\d+)[eE][+-]?\d+$", t):
                return Fraction(t)
        except Exception:
            pass
        return None
    sign, a, b, c = m.groups()
    v = Fraction(a if not a.endswith(".") else a + "0") if not a.startswith(".") else Fraction("0" + a)
    for i, f in enumerate((b, c)):
        if f is not None:
            ff = f
            if ff.startswith("."):
                ff = "0" + ff
            if ff.endswith("."):
                ff += "0"
            v += Fraction(ff) / (60 ** (i + 1))
    return -v if sign == "-" else v


SEXA_UNITS = {3: Fraction(1, 60), 5: Fraction(1, 600), 6: Fraction(1, 3600), 8: Fraction(1, 36000), 9: Fraction(1, 360000)}


def resolution(fmt):
    """resolution unit of a format as a Fraction."""
    m = re.match(r"^%(\d*)\.(\d+)m$", fmt)
    if m:
        return SEXA_UNITS[int(m.group(2))]
    m = re.match(r"^%[-+ 0#]*(\d*)(?:\.(\d+))?([dfieEgG])$", fmt)
    if not m:
        raise ValueError(fmt)
    if m.group(3) in "eEgG":
        raise ValueError("the resolution of %s depends on the value: use resolution_at" % fmt)
    if m.group(3) in "di":
        return Fraction(1)
    prec = int(m.group(2)) if m.group(2) is not None else 6
    return Fraction(1, 10**prec)


def resolution_at(fmt, v):
    """resolution unit of a format at the value v (Fraction): for the exponent conversions the unit is one unit of
    the last significant digit printf keeps (%.Ne: N+1 significant digits; %.Pg: P significant digits, P=0 -> 1)."""
    m = re.match(r"^%[-+ 0#]*(\d*)(?:\.(\d+))?([eEgG])$", fmt)
    if not m:
        return resolution(fmt)
    prec = int(m.group(2)) if m.group(2) is not None else 6
    sig = prec + 1 if m.group(3) in "eE" else max(prec, 1)
    a = abs(Fraction(v))
    if a == 0:
        return Fraction(1, 10**sig)
    e = 0
    while Fraction(10) ** (e + 1) <= a:
        e += 1
    while Fraction(10) ** e > a:
        e -= 1
    return Fraction(10) ** (e - sig + 1)
