"""Glue between abstract descriptions and the real library (imports indi)."""
import indi.message as M
from indi.message import base as MB
from indi.message import def_parts, one_parts

MSG_CLASSES = {
    "getProperties": M.GetProperties,
    "enableBLOB": M.EnableBLOB,
    "delProperty": M.DelProperty,
    "message": MB.Message,
    "pingRequest": M.PingRequest,
    "pingReply": M.PingReply,
}
for _x in ("Text", "Number", "Switch", "Light", "BLOB"):
    MSG_CLASSES["def%sVector" % _x] = getattr(M, "Def%sVector" % _x)
    MSG_CLASSES["set%sVector" % _x] = getattr(M, "Set%sVector" % _x)
    if _x != "Light":
        MSG_CLASSES["new%sVector" % _x] = getattr(M, "New%sVector" % _x)

PART_CLASSES = {
    "defText": def_parts.DefText,
    "defNumber": def_parts.DefNumber,
    "defSwitch": def_parts.DefSwitch,
    "defLight": def_parts.DefLight,
    "defBLOB": def_parts.DefBLOB,
    "oneText": one_parts.OneText,
    "oneNumber": one_parts.OneNumber,
    "oneSwitch": one_parts.OneSwitch,
    "oneLight": one_parts.OneLight,
    "oneBLOB": one_parts.OneBLOB,
}


def build_part(cdesc):
    ct, ca, ctext = cdesc
    kw = dict(ca)
    return PART_CLASSES[ct](value=ctext, **kw)


def build(desc):
    """Library object for a desc, through the public constructors."""
    tag, attrs, text, children = desc
    kw = dict(attrs)
    if text is not None:
        kw["value"] = text
    from mc.gen.messages import KINDS

    if KINDS[tag].child:
        kw["children"] = tuple(build_part(c) for c in children)
    return MSG_CLASSES[tag](**kw)


def exc_site(exc):
    """'<ExcType>@<module>:<function>' of the innermost frame inside the indi package."""
    tb = exc.__traceback__
    site = "?"
    while tb is not None:
        co = tb.tb_frame.f_code
        fn = co.co_filename.replace("\\", "/")
        if "/indi/" in fn:
            mod = fn.split("/indi/", 1)[1][:-3].replace("/", ".")
            site = "indi.%s:%s" % (mod, co.co_name)
        tb = tb.tb_next
    return "%s@%s" % (type(exc).__name__, site)
