"""Runner: ./check <ID> [--tier quick|thorough] [--replay path] [--jobs N]

Contract (DESIGN.md section 2):
  exit 0  property held on everything explored (KNOWN-FINDING lines possible)
  exit 1  + line "VIOLATION property=<id> replay=<path>" for a violation not listed
  exit 2  harness error (replay divergence, nondeterminism, vacuity guard tripped)
"""
import os
import sys

SRC = os.environ.get("INDIPY_SRC", "/repo")
if SRC not in sys.path:
    sys.path.insert(0, SRC)

import argparse
import hashlib
import importlib
import json
import logging
import multiprocessing as mp
import signal
import subprocess
import time
import traceback

ROOT = os.path.dirname(os.path.dirname(os.path.abspath(__file__)))
EVIDENCE_SCHEMA = "/root/.vp/EVIDENCE.schema.json"


class HarnessError(Exception):
    pass


class ShardTimeout(Exception):
    pass


def _alarm(signum, frame):
    raise ShardTimeout("shard exceeded its wall limit")


def _worker_init():
    logging.disable(logging.CRITICAL)
    signal.signal(signal.SIGINT, signal.SIG_IGN)
    from mc.core import guard

    guard.install()


class _DebugLogging:
    """the library with its loggers switched to DEBUG (records go to a null handler): every logging statement formats its
    arguments and every isEnabledFor(DEBUG) branch is taken - a deployment's log level must not change what it does"""

    def __init__(self, on):
        self.on = on

    def __enter__(self):
        if self.on:
            self.saved = (logging.root.manager.disable, logging.root.level, logging.getLogger("indi").level)
            self.handler = logging.NullHandler()
            logging.root.addHandler(self.handler)
            logging.root.setLevel(logging.DEBUG)
            logging.getLogger("indi").setLevel(logging.DEBUG)
            logging.disable(logging.NOTSET)
            logging.raiseExceptions = True

    def __exit__(self, *a):
        if self.on:
            logging.disable(self.saved[0])
            logging.root.setLevel(self.saved[1])
            logging.getLogger("indi").setLevel(self.saved[2])
            logging.root.removeHandler(self.handler)


def _run_shard(args):
    modname, shard, limit = args[:3]
    debuglog = len(args) > 3 and args[3]
    mod = importlib.import_module(modname)
    signal.signal(signal.SIGALRM, _alarm)
    signal.setitimer(signal.ITIMER_REAL, limit)
    t0 = time.time()
    try:
        with _DebugLogging(debuglog):
            res = mod.run_shard(shard)
        res["_ok"] = True
        res["_debuglog"] = bool(debuglog)
    except ShardTimeout:
        res = {"_ok": False, "_err": "Hang: shard %r exceeded %ss" % (shard, limit), "_hang": True}
    except Exception as e:
        if type(e).__name__ == "HandshakeFailed":
            # the library under test could not even bring a client and a server together: a finding, not a harness error
            res = {"_ok": True, "violations": [{"clause": "handshake-failed", "disc": "client-start", "what": str(e), "replay": {"_shard": list(shard) if isinstance(shard, tuple) else shard}}]}
        else:
            res = {"_ok": False, "_err": traceback.format_exc()}
    finally:
        signal.setitimer(signal.ITIMER_REAL, 0)
    res["_wall"] = time.time() - t0
    res["_shard"] = repr(shard)[:300]
    return res


def merge(results):
    """Sum integer counters, union lists (violations/samples), sum dict-of-int counters."""
    out = {"violations": [], "samples": [], "counters": {}, "outcomes": {}}
    for r in results:
        for k, v in r.items():
            if k.startswith("_"):
                continue
            if k in ("violations", "samples"):
                out[k].extend(v)
            elif k in ("counters", "outcomes"):
                for kk, vv in v.items():
                    out[k][kk] = out[k].get(kk, 0) + vv
            elif isinstance(v, bool):
                out[k] = out.get(k, True) and v
            elif isinstance(v, (int, float)):
                out[k] = out.get(k, 0) + v
            elif isinstance(v, list):
                out.setdefault(k, []).extend(v)
            else:
                out[k] = v
    return out


def load_findings():
    p = os.path.join(ROOT, "known_findings.json")
    if not os.path.exists(p):
        return []
    with open(p) as f:
        return json.load(f).get("findings", [])


def sig_of(v):
    return (v["clause"], v["disc"])


def finding_for(prop, v, findings):
    import fnmatch

    for f in findings:
        if f.get("status") != "open" or f["property"] != prop:
            continue
        disc = v["disc"]
        if disc.endswith(",debug-logging"):
            disc = disc[: -len(",debug-logging")]  # the same finding seen in a shard repeated with debug logging
        if f["clause"] == v["clause"] and fnmatch.fnmatchcase(disc, f["disc"]):
            return f
    return None


def write_replay(prop, v):
    d = os.path.join(ROOT, "replays", prop)
    os.makedirs(d, exist_ok=True)
    h = hashlib.sha1(("%s|%s" % sig_of(v)).encode()).hexdigest()[:12]
    path = os.path.join(d, h + ".json")
    with open(path, "w") as f:
        json.dump(
            {
                "property": prop,
                "clause": v["clause"],
                "disc": v["disc"],
                "what": v.get("what", ""),
                "replay": v["replay"],
            },
            f,
            indent=1,
            default=repr,
        )
    return path


def validate_evidence(path):
    code = (
        "import json,sys,jsonschema;"
        "jsonschema.validate(json.load(open(sys.argv[1])),json.load(open(sys.argv[2])))"
    )
    for py in ("python3-vt", "/opt/veriftools/pyvenv/bin/python"):
        try:
            r = subprocess.run([py, "-c", code, path, EVIDENCE_SCHEMA], capture_output=True, text=True)
        except FileNotFoundError:
            continue
        if r.returncode != 0:
            raise HarnessError("evidence does not validate: " + r.stderr[-800:])
        return True
    return False  # no validator available; do not fail the check for that


def main(argv=None):
    ap = argparse.ArgumentParser()
    ap.add_argument("prop")
    ap.add_argument("--tier", default=os.environ.get("VERIF_TIER", "quick"), choices=["quick", "thorough"])
    ap.add_argument("--replay")
    ap.add_argument("--jobs", type=int, default=int(os.environ.get("VERIF_JOBS", "16")))
    ap.add_argument("--no-evidence", action="store_true")
    a = ap.parse_args(argv)
    prop = a.prop.upper()
    try:
        seed = int(os.environ.get("VERIF_SEED", "0"))
    except ValueError:
        seed = 0
    logging.disable(logging.CRITICAL)
    modname = "mc.props." + prop.lower()
    mod = importlib.import_module(modname)

    if a.replay:
        return do_replay(mod, prop, a.replay)

    t0 = time.time()
    shards = mod.shards(a.tier, seed)
    limit = getattr(mod, "SHARD_LIMIT", {"quick": 600, "thorough": 7200})[a.tier]
    jobs = max(1, min(a.jobs, len(shards)))
    work = [(modname, s, limit) for s in shards]
    # every k-th shard is run a second time with the library's loggers at DEBUG (only its violations are kept)
    k_dbg = int(os.environ.get("VERIF_DEBUGLOG_EVERY", "8" if a.tier == "quick" else "16"))
    if k_dbg > 0:
        work += [(modname, s, limit, True) for i, s in enumerate(shards) if i % k_dbg == 0]
    if jobs == 1:
        _worker_init_serial()
        results = [_run_shard(w) for w in work]
    else:
        ctx = mp.get_context("fork")
        with ctx.Pool(jobs, initializer=_worker_init) as pool:
            results = list(pool.imap_unordered(_run_shard, work, chunksize=1))
    if os.environ.get("VERIF_TIMES"):
        tot = {}
        for r in results:
            key = " ".join(r["_shard"].split(",")[1:2])
            tot[key] = tot.get(key, 0) + r["_wall"]
        print("shard wall by kind:", {k: round(v, 1) for k, v in tot.items()})
        for r in sorted(results, key=lambda r: -r["_wall"])[:6]:
            print("  slow shard %.1fs %s" % (r["_wall"], r["_shard"]))
    harness_errors = [r for r in results if not r["_ok"] and not r.get("_hang")]
    hangs = [r for r in results if r.get("_hang")]
    dbg = [r for r in results if r["_ok"] and r.get("_debuglog")]
    m = merge([r for r in results if r["_ok"] and not r.get("_debuglog")])
    for r in dbg:
        for v in r.get("violations", []):
            v = dict(v, disc=v["disc"] + ",debug-logging")
            if isinstance(v.get("replay"), dict):
                v["replay"] = dict(v["replay"], _debuglog=True)
            m["violations"].append(v)
    m["counters"]["shards_repeated_with_debug_logging"] = len(dbg)
    for h in hangs:
        m["violations"].append(
            {"clause": "hang", "disc": "shard-wall-limit", "what": h["_err"], "replay": {"shard": h["_shard"]}}
        )
    if harness_errors:
        for r in harness_errors[:3]:
            sys.stderr.write("HARNESS ERROR in shard %s\n%s\n" % (r["_shard"], r["_err"]))
        print("HARNESS-ERROR property=%s shards_failed=%d" % (prop, len(harness_errors)))
        return 2

    findings = load_findings()
    by_sig = {}
    for v in m["violations"]:
        s = sig_of(v)
        if s not in by_sig:
            by_sig[s] = dict(v, count=0)
        by_sig[s]["count"] += v.get("count", 1)
    known, new = [], []
    for s in sorted(by_sig):
        v = by_sig[s]
        f = finding_for(prop, v, findings)
        (known if f else new).append((v, f))

    cov = mod.finish(a.tier, seed, m)
    vac = cov.pop("_vacuity_errors", [])
    wall = time.time() - t0
    ev = {
        "property_id": prop,
        "tier": a.tier,
        "seed": seed,
        "level": mod.LEVEL,
        "coverage": cov,
        "assumptions": getattr(mod, "ASSUMPTIONS", []),
        "wall_s": round(wall, 2),
        "violations": len(new),
        "known_findings_reported": [
            {"clause": v["clause"], "disc": v["disc"], "count": v["count"]} for v, f in known
        ],
        "violation_signatures": [
            {"clause": v["clause"], "disc": v["disc"], "count": v["count"], "what": v.get("what", "")[:400]}
            for v, f in new
        ],
        "shards": len(shards),
        "indipy_src": SRC,
    }
    if not a.no_evidence:
        os.makedirs(os.path.join(ROOT, "evidence"), exist_ok=True)
        evp = os.path.join(ROOT, "evidence", prop + ".json")
        with open(evp, "w") as f:
            json.dump(ev, f, indent=1, default=repr)
        validate_evidence(evp)

    grouped = {}
    for v, f in known:
        g = grouped.setdefault(id(f), (f, []))
        g[1].append(v)
    for f, vs in grouped.values():
        print(
            "KNOWN-FINDING: property=%s %s%s [%s] x%d"
            % (prop, (f.get("id", "") + " ") if f.get("id") else "", f.get("what", ""), "; ".join("%s / %s" % (v["clause"], v["disc"]) for v in vs), sum(v["count"] for v in vs))
        )
    from mc.core import guard as _guard

    _guard.install()
    # determinism: before a violation is reported, its replay (straight-line, without the explorer) must fail again
    confirmed = 0
    tried = 0
    for v, f in new[:4]:
        tried += 1
        try:
            rp = json.loads(json.dumps(v["replay"], default=repr))
            dl = isinstance(rp, dict) and rp.pop("_debuglog", False)
            with _DebugLogging(dl):
                again = _replay_shard(mod, rp["_shard"]) if isinstance(rp, dict) and "_shard" in rp else mod.replay(rp)
            if dl and again:
                again = [dict(x, disc=x["disc"] + ",debug-logging") for x in again]
        except Exception as e:  # noqa
            again = None
            sys.stderr.write("replay of %s / %s raised %r\n" % (v["clause"], v["disc"], e))
        if again:
            confirmed += 1
            v["replayed"] = "reproduced"
        else:
            v["replayed"] = "NOT reproduced"
    for v, f in new:
        path = write_replay(prop, v)
        print("  signature: %s / %s  (x%d)  %s%s" % (v["clause"], v["disc"], v["count"], v.get("what", "")[:300], ("  [replay: %s]" % v["replayed"]) if "replayed" in v else ""))
        print("VIOLATION property=%s replay=%s" % (prop, os.path.relpath(path, ROOT)))
    if tried and not confirmed:
        print("NOTE property=%s none of the %d replays tried reproduced its violation outside the explorer (nondeterminism in the harness?)" % (prop, tried))
    summary = {k: v for k, v in cov.items() if isinstance(v, (int, float, bool))}
    print("%s %s: %s wall=%.1fs" % (prop, a.tier, json.dumps(summary), wall))
    if vac:
        for e in vac:
            print("VACUITY-GUARD: " + e)
        if not new:
            return 2  # a silent run that explored too little proves nothing
    return 1 if new else 0


def _worker_init_serial():
    logging.disable(logging.CRITICAL)
    from mc.core import guard

    guard.install()


def _tuplify(x):
    return tuple(_tuplify(i) for i in x) if isinstance(x, list) else x


def _replay_shard(mod, shard):
    try:
        r = mod.run_shard(_tuplify(shard))
    except Exception as e:
        if type(e).__name__ == "HandshakeFailed":
            return [{"clause": "handshake-failed", "disc": "client-start", "what": str(e)}]
        raise
    return [{"clause": v["clause"], "disc": v["disc"], "what": v.get("what", "")} for v in r.get("violations", [])]


def do_replay(mod, prop, path):
    from mc.core import guard

    guard.install()
    with open(path) as f:
        rep = json.load(f)
    obs = []
    for i in range(2):
        rp = dict(rep["replay"]) if isinstance(rep["replay"], dict) else rep["replay"]
        dl = isinstance(rp, dict) and rp.pop("_debuglog", False)
        with _DebugLogging(dl):
            if isinstance(rp, dict) and "_shard" in rp:
                vs = _replay_shard(mod, rp["_shard"])
            else:
                vs = mod.replay(rp)
        if dl:
            vs = [dict(x, disc=x["disc"] + ",debug-logging") for x in vs]
        obs.append(json.dumps([(v["clause"], v["disc"], v.get("what", "")) for v in vs], sort_keys=True, default=repr))
    import re

    def norm(o):  # object addresses in messages differ between runs
        return re.sub(r"0x[0-9a-fA-F]+", "0x?", o)

    if norm(obs[0]) != norm(obs[1]):
        print("REPLAY-NONDETERMINISTIC property=%s" % prop)
        print(obs[0])
        print(obs[1])
        return 2
    vs = json.loads(obs[0])
    if not vs:
        print("replay: no violation reproduced (property=%s)" % prop)
        return 0
    for c, d, w in vs:
        print("  reproduced: %s / %s  %s" % (c, d, w))
    print("VIOLATION property=%s replay=%s" % (prop, path))
    return 1


if __name__ == "__main__":
    try:
        rc = main()
    except HarnessError as e:
        sys.stderr.write("HARNESS ERROR: %s\n" % e)
        rc = 2
    sys.exit(rc)
