CONSTANTS
  Clients = {"c1", "c2"}
  Devs = {"A", "B"}
INIT Init
NEXT Next
INVARIANTS Inv NoSelf Indep
