---- MODULE Router ----
(* Protocol-level model of indi.routing.Router's fan-out of device-originated messages.
   reg : set of registered clients; pol : client -> device -> {"Unset","Never","Also","Only"}.
   Every action prints its edge (PrintT) so that the Python side can replay EVERY edge of the
   reachable graph on the real Router (mc/core/tlc.py).  Run with -workers 1. *)
EXTENDS Naturals, FiniteSets, TLC
CONSTANTS Clients, Devs
Pols  == {"Never", "Also", "Only"}
Unset == "Unset"
VARIABLES reg, pol
vars == <<reg, pol>>
EffPol(c, d) == IF d \in Devs /\ pol[c][d] # Unset THEN pol[c][d] ELSE "Never"
Deliver(isblob, d, snd) ==
  {c \in reg \ {snd} : IF isblob THEN EffPol(c, d) \in {"Also", "Only"}
                                 ELSE EffPol(c, d) \in {"Never", "Also"}}
Init == reg = {} /\ pol = [c \in Clients |-> [d \in Devs |-> Unset]]
Register(c)   == c \notin reg /\ reg' = reg \cup {c}
                 /\ pol' = [pol EXCEPT ![c] = [d \in Devs |-> Unset]]
                 /\ PrintT(<<"E", reg, pol, "reg", c, reg', pol'>>)
Unregister(c) == c \in reg /\ reg' = reg \ {c}
                 /\ pol' = [pol EXCEPT ![c] = [d \in Devs |-> Unset]]
                 /\ PrintT(<<"E", reg, pol, "unreg", c, reg', pol'>>)
Enable(c,d,p) == c \in reg /\ pol' = [pol EXCEPT ![c][d] = p] /\ reg' = reg
                 /\ PrintT(<<"E", reg, pol, "enable", c, d, p, reg', pol'>>)
Send(b,d,s)   == UNCHANGED vars
                 /\ PrintT(<<"E", reg, pol, "send", b, d, s, Deliver(b, d, s)>>)
Next == \/ \E c \in Clients : Register(c) \/ Unregister(c)
        \/ \E c \in Clients, d \in Devs, p \in Pols : Enable(c, d, p)
        \/ \E b \in BOOLEAN, d \in Devs \cup {"none"}, s \in reg \cup {"dev"} : Send(b, d, s)
Spec == Init /\ [][Next]_vars
Inv  == \A c \in Clients \ reg : \A d \in Devs : pol[c][d] = Unset
NoSelf == \A b \in BOOLEAN, d \in Devs \cup {"none"}, s \in reg : s \notin Deliver(b, d, s)
\* independence: changing pol[c][d] changes no other (c2, d2) outcome
Indep == \A c \in reg, d \in Devs, p \in Pols, c2 \in reg, d2 \in Devs :
           (c2 # c \/ d2 # d) =>
             LET pol2 == [pol EXCEPT ![c][d] = p]
                 eff2 == IF pol2[c2][d2] # Unset THEN pol2[c2][d2] ELSE "Never"
             IN  eff2 = EffPol(c2, d2)
====
