CONSTANTS
  Clients = {"c1", "c2", "c3"}
  Devs = {"A", "B"}
INIT Init
NEXT Next
INVARIANTS Inv NoSelf Indep
