"""E6: deployments = lists of driver specs (mc.gen.drivers) with forced name collisions."""
import itertools

VARIANTS = ("text", "number-printf", "number-sexa", "switch-OneOfMany", "switch-AtMostOne", "switch-AnyOfMany", "light", "blob")


# further number formats (not in VARIANTS: used by the checks that want them)
NUMBER_FORMATS = {"number-printf": "%.2f", "number-sexa": "%.6m", "number-sexa3": "%.3m", "number-sexa5": "%.5m", "number-sexa8": "%.8m", "number-sexa9": "%.9m", "number-g": "%g", "number-d": "%d"}


def target_vector(variant, enabled=True, perm="rw"):
    kind = variant.split("-")[0]
    v = dict(attr="t", kind=kind, name="TGT", enabled=enabled, perm=perm, label="Target \u00b5m <&>")  # non-ASCII + markup in metadata
    if kind == "text":
        v["elements"] = [dict(attr="a", name="A", default="x", label="El A \u2603"), dict(attr="b", name="B", default="y")]
    elif kind == "number":
        fmt = NUMBER_FORMATS[variant]
        # element A states a range whose limits need more than six significant digits (a 24-bit encoder, a julian date)
        # element A states its range; element B's limits are floats that Python prints with an exponent
        v["elements"] = [dict(attr="a", name="A", default=1.5, format=fmt, min=-16777215, max=2400000.5, step=0.0000125), dict(attr="b", name="B", default=2.25, format=fmt, min=-1e16, max=1e16, step=0.00001)]
    elif kind == "switch":
        v["rule"] = variant.split("-")[1]
        v["elements"] = [dict(attr="a", name="A", default="On"), dict(attr="b", name="B"), dict(attr="c", name="C")]
    elif kind == "light":
        v["elements"] = [dict(attr="a", name="A", default="Ok"), dict(attr="b", name="B", default="Busy")]
    else:
        v["elements"] = [dict(attr="a", name="A"), dict(attr="b", name="B")]
    return v


def bystander_vector(variant):
    kind = variant.split("-")[0]
    if kind == "text":
        return dict(attr="o", kind="switch", name="OTHER", rule="AnyOfMany", elements=[dict(attr="a", name="A"), dict(attr="b", name="B", default="On")])
    return dict(attr="o", kind="text", name="OTHER", elements=[dict(attr="a", name="A", default="oa"), dict(attr="b", name="B", default="ob")])


def device_spec(name, variant, vec_enabled=True, grp_enabled=True, depth=1, ngroups=2, perm="rw"):
    """target vector in group g1 declared in the DEEPEST base class; bystander in g2 (most derived class);
    optional third group g3 in the middle."""
    groups = [dict(attr="g1", name="Main \u00e9", enabled=grp_enabled, level=0, vectors=[target_vector(variant, vec_enabled, perm)])]
    if ngroups >= 2:
        groups.append(dict(attr="g2", name="Side", enabled=True, level=depth - 1, vectors=[bystander_vector(variant)]))
    if ngroups >= 3:
        groups.append(dict(attr="g3", name="Extra", enabled=True, level=max(0, depth - 2), vectors=[dict(attr="x", kind="light", name="XTRA", elements=[dict(attr="a", name="A")])]))
    return dict(name=name, groups=groups, depth=depth)


def deployment(variant, vec_enabled=True, grp_enabled=True, depth=1, ndev=1, ngroups=2, related=False, nolimits=False, read_refresh=False, perm="rw"):
    """device 0 is the device under test; further devices have the SAME vector and element names.
    related=True: device 1's class DERIVES from device 0's class (instantiated after it) and adds a group."""
    specs = [device_spec("DEV0", variant, vec_enabled, grp_enabled, depth, ngroups, perm)]
    if nolimits:
        for e in specs[0]["groups"][0]["vectors"][0]["elements"]:
            for k in ("min", "max", "step"):
                e.pop(k, None)
    for i in range(1, ndev):
        if related and i == 1:
            import copy

            groups = [dict(copy.deepcopy(g), inherited=True) for g in specs[0]["groups"]]
            groups.append(dict(attr="g9", name="Derived", enabled=True, vectors=[dict(attr="d", kind="text", name="DERIVED", elements=[dict(attr="a", name="A", default="da")])]))
            specs.append(dict(name="DEV1", groups=groups, depth=1, derive_from=0))
        else:
            specs.append(device_spec("DEV%d" % i, variant, True, True, 1, 2))
    return specs


def family(tier):
    """yield (label, params) of the deployment family"""
    out = []
    for variant in VARIANTS:
        for ve, ge in itertools.product((True, False), repeat=2):
            for depth in (1, 2, 3):
                for ndev in (1, 2, 3):
                    p = dict(variant=variant, vec_enabled=ve, grp_enabled=ge, depth=depth, ndev=ndev, ngroups=3 if depth == 3 else 2)
                    out.append(p)
    # number element B without any limits (definition defaults), and a Read handler that refreshes element A
    out.append(dict(variant="number-printf", vec_enabled=True, grp_enabled=True, depth=1, ndev=1, ngroups=2, nolimits=True))
    for variant in ("number-printf", "number-sexa", "text", "switch-AnyOfMany", "light"):
        out.append(dict(variant=variant, vec_enabled=True, grp_enabled=True, depth=2, ndev=2, ngroups=2, read_refresh=True))
    # write-only and read-only target properties (the permission is metadata a client must see; a write-only property
    # is as writable as a read-write one)
    for variant in ("text", "number-printf", "switch-OneOfMany", "blob"):
        out.append(dict(variant=variant, vec_enabled=True, grp_enabled=True, depth=1, ndev=2, ngroups=2, perm="wo"))
    out.append(dict(variant="text", vec_enabled=True, grp_enabled=True, depth=2, ndev=1, ngroups=2, perm="ro"))
    # class hierarchies shared between devices: device 1 derives from device 0's class
    for variant in ("text", "number-printf", "switch-OneOfMany", "blob"):
        for depth in (1, 2):
            out.append(dict(variant=variant, vec_enabled=True, grp_enabled=True, depth=depth, ndev=2, ngroups=2, related=True))
    if tier == "thorough":
        return out
    # quick: pairwise-ish subset of 128: every variant x (ve, ge) x 4 of the 9 (depth, ndev) combinations, rotating
    q = []
    combos = [(1, 1), (2, 2), (3, 1), (1, 3), (2, 1), (3, 3), (1, 2), (2, 3), (3, 2)]
    i = 0
    for variant in VARIANTS:
        for ve, ge in itertools.product((True, False), repeat=2):
            for k in range(4):
                depth, ndev = combos[(i + k * 2) % 9]
                q.append(dict(variant=variant, vec_enabled=ve, grp_enabled=ge, depth=depth, ndev=ndev, ngroups=3 if depth == 3 else 2))
            i += 1
    q += [p for p in out if p.get("related") or p.get("nolimits") or p.get("read_refresh") or p.get("perm")]
    return q
