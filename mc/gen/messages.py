"""E6: bounded-exhaustive generator of abstract INDI message descriptions + own serialiser.

An abstract description ("desc") is
    (tag, attrs, text, children)
      attrs    : tuple of (name, value) string pairs, in *declared* order
      text     : str or None
      children : tuple of (ctag, cattrs, ctext)

The grammar table below is written from the INDI 1.7 white paper / DTD, not from the
library's classes.  Nothing here imports indi.
"""
import itertools

STATES = ("Idle", "Ok", "Busy", "Alert")
PERMS = ("ro", "wo", "rw")
RULES = ("OneOfMany", "AtMostOne", "AnyOfMany")
SWITCH = ("On", "Off")
BLOBEN = ("Never", "Also", "Only")

# lexical classes for free text / attribute values (DESIGN E6)
FREE = (
    "abc",            # plain
    "a b",            # inner blank
    "a\nb",           # inner newline
    "a\tb",           # inner tab
    "<&>",            # markup characters
    "\"q'",           # both quotes
    "x]]>y",          # CDATA terminator
    "é√",   # BMP non-ASCII
    "\U0001F600",     # astral
    "123",            # digits only
    "Ok",             # looks like a vocabulary word
    "__main__",       # looks like Python internals
    "None",
    "a>b",
    "e\u0301\u2126\uf900\U0002f800",  # not in Unicode normal form: decomposed, compatibility singletons (BMP and astral)
    "a \n\t b",       # blanks and a tab next to an inner newline
    "p\u2028q\u0085r",  # line separators other than LF that XML 1.0 carries as ordinary characters
    "R&amp;D &lt;1&gt; &#65; &copy;",  # text that literally contains entity-like sequences (escaped once on the wire, decoded once)
)
NUMS = ("1", "-1", "1.5", "-0.25", "10.", ".5", "1:30", "-1:30:15", "12:30.5", "0:00:01.25")
# the last value is longer than any line length a serialiser might wrap at (120 characters of base64)
B64 = ("", "QQ==", "QUI=", "QUJD", "AAECAwQFBgcICQ==", "QUJD" * 30)

# slot kinds: "free", "num", "b64", or a vocabulary tuple
K_FREE, K_NUM, K_B64 = "free", "num", "b64"


class Part:
    def __init__(self, tag, req, opt, text):
        self.tag, self.req, self.opt, self.text = tag, req, opt, text


class Kind:
    def __init__(self, tag, req, opt, text=None, child=None, origin="device"):
        self.tag, self.req, self.opt, self.text, self.child, self.origin = tag, req, opt, text, child, origin


F = K_FREE
PARTS = {
    "defText": Part("defText", (("name", F),), (("label", F),), F),
    "defNumber": Part("defNumber", (("name", F), ("format", F), ("min", K_NUM), ("max", K_NUM), ("step", K_NUM)), (("label", F),), K_NUM),
    "defSwitch": Part("defSwitch", (("name", F),), (("label", F),), SWITCH),
    "defLight": Part("defLight", (("name", F),), (("label", F),), STATES),
    "defBLOB": Part("defBLOB", (("name", F),), (("label", F),), None),
    "oneText": Part("oneText", (("name", F),), (), F),
    "oneNumber": Part("oneNumber", (("name", F),), (), K_NUM),
    "oneSwitch": Part("oneSwitch", (("name", F),), (), SWITCH),
    "oneLight": Part("oneLight", (("name", F),), (), STATES),
    "oneBLOB": Part("oneBLOB", (("name", F), ("size", K_NUM), ("format", F)), (), K_B64),
}

_defcommon_opt = (("label", F), ("group", F), ("timestamp", F), ("message", F))
_w = (("device", F), ("name", F), ("state", STATES), ("perm", PERMS))
KINDS = {}


def _k(*a, **kw):
    k = Kind(*a, **kw)
    KINDS[k.tag] = k


_k("getProperties", (("version", F),), (("device", F), ("name", F)), origin="both")
_k("enableBLOB", (("device", F),), (("name", F),), text=BLOBEN, origin="client")
_k("delProperty", (("device", F),), (("name", F), ("timestamp", F), ("message", F)))
_k("message", (), (("device", F), ("timestamp", F), ("message", F)))
_k("pingRequest", (("uid", F),), ())
_k("pingReply", (("uid", F),), (), origin="client")
_k("defTextVector", _w, _defcommon_opt + (("timeout", K_NUM),), child="defText")
_k("defNumberVector", _w, _defcommon_opt + (("timeout", K_NUM),), child="defNumber")
_k("defSwitchVector", _w + (("rule", RULES),), _defcommon_opt + (("timeout", K_NUM),), child="defSwitch")
_k("defLightVector", _w[:3], _defcommon_opt, child="defLight")
_k("defBLOBVector", _w, _defcommon_opt + (("timeout", K_NUM),), child="defBLOB")
_s = (("device", F), ("name", F), ("state", STATES))
_sopt = (("timeout", K_NUM), ("timestamp", F), ("message", F))
for _x in ("Text", "Number", "Switch", "Light", "BLOB"):
    _k("set%sVector" % _x, _s, _sopt, child="one" + _x)
for _x in ("Text", "Number", "Switch", "BLOB"):
    _k("new%sVector" % _x, _s[:2], (("timestamp", F),), child="one" + _x, origin="client")

ALL_TAGS = tuple(KINDS)
DEVICE_KINDS = tuple(t for t, k in KINDS.items() if k.origin in ("device", "both"))
CLIENT_KINDS = tuple(t for t, k in KINDS.items() if k.origin in ("client", "both"))


def domain(kind):
    if kind == K_FREE:
        return FREE
    if kind == K_NUM:
        return NUMS
    if kind == K_B64:
        return B64
    return kind


def default_of(kind, salt=0):
    d = domain(kind)
    if kind == K_FREE:
        return ("abc", "de", "f1", "G")[salt % 4]
    return d[salt % len(d)]


def subsets(items):
    items = tuple(items)
    for r in range(len(items) + 1):
        for c in itertools.combinations(items, r):
            yield c


def skeleton(tag, optsel, nchildren, child_optsel=None, salt=0):
    """desc with default values. optsel: tuple of optional attr names included."""
    k = KINDS[tag]
    attrs = tuple((n, default_of(kd, salt + i)) for i, (n, kd) in enumerate(k.req))
    attrs += tuple((n, default_of(kd, salt + i + 1)) for i, (n, kd) in enumerate(k.opt) if n in optsel)
    text = default_of(k.text, salt) if k.text else None
    children = ()
    if k.child:
        p = PARTS[k.child]
        ch = []
        for ci in range(nchildren):
            co = child_optsel[ci] if child_optsel else ()
            ca = []
            for i, (n, kd) in enumerate(p.req):
                v = ("e%d" % ci) if n == "name" else default_of(kd, salt + ci + i)
                ca.append((n, v))
            for i, (n, kd) in enumerate(p.opt):
                if n in co:
                    ca.append((n, default_of(kd, salt + ci + i + 2)))
            ct = default_of(p.text, salt + ci) if p.text else None
            ch.append((p.tag, tuple(ca), ct))
        children = tuple(ch)
    return (tag, attrs, text, children)


def structures(tag, max_children=3, full_child_opts=True):
    """All structures of a kind: every subset of optional attrs x 0..max children x
    per-child optional-attr subsets (per child for <=2 children, uniform for 3)."""
    k = KINDS[tag]
    optnames = tuple(n for n, _ in k.opt)
    for optsel in subsets(optnames):
        if not k.child:
            yield skeleton(tag, optsel, 0)
            continue
        p = PARTS[k.child]
        pon = tuple(n for n, _ in p.opt)
        for nch in range(max_children + 1):
            if not pon or not full_child_opts:
                yield skeleton(tag, optsel, nch, [pon] * nch)
                if pon and nch:
                    yield skeleton(tag, optsel, nch, [()] * nch)
                continue
            if nch <= 2:
                for cos in itertools.product(list(subsets(pon)), repeat=nch):
                    yield skeleton(tag, optsel, nch, cos)
            else:
                for co in subsets(pon):
                    yield skeleton(tag, optsel, nch, [co] * nch)
                yield skeleton(tag, optsel, nch, [pon, (), pon])


def slots(desc):
    """Enumerate value slots of a desc: (path, kind) where path is
    ('a', i) attr i / ('t',) text / ('ca', ci, i) child attr / ('ct', ci) child text."""
    tag, attrs, text, children = desc
    k = KINDS[tag]
    kinds = dict(k.req + k.opt)
    for i, (n, v) in enumerate(attrs):
        yield ("a", i), kinds[n]
    if k.text:
        yield ("t",), k.text
    if k.child:
        p = PARTS[k.child]
        pk = dict(p.req + p.opt)
        for ci, (ct, ca, ctext) in enumerate(children):
            for i, (n, v) in enumerate(ca):
                yield ("ca", ci, i), pk[n]
            if p.text:
                yield ("ct", ci), p.text


def with_slot(desc, path, value):
    tag, attrs, text, children = desc
    if path[0] == "a":
        a = list(attrs)
        a[path[1]] = (a[path[1]][0], value)
        return (tag, tuple(a), text, children)
    if path[0] == "t":
        return (tag, attrs, value, children)
    ch = list(children)
    ct, ca, ctext = ch[path[1]]
    if path[0] == "ca":
        a = list(ca)
        a[path[2]] = (a[path[2]][0], value)
        ch[path[1]] = (ct, tuple(a), ctext)
    else:
        ch[path[1]] = (ct, ca, value)
    return (tag, attrs, text, tuple(ch))


def get_slot(desc, path):
    tag, attrs, text, children = desc
    if path[0] == "a":
        return attrs[path[1]][1]
    if path[0] == "t":
        return text
    ct, ca, ctext = children[path[1]]
    return ca[path[2]][1] if path[0] == "ca" else ctext


def deviations(desc, d=1):
    """All descs that differ from desc in exactly 1..d slots, each taking a non-default
    value of its domain.  (d=1: every slot x every alternative; d=2: every pair.)"""
    sl = list(slots(desc))
    for r in range(1, d + 1):
        for combo in itertools.combinations(sl, r):
            doms = []
            for path, kind in combo:
                cur = get_slot(desc, path)
                doms.append([v for v in domain(kind) if v != cur])
            for vals in itertools.product(*doms):
                dd = desc
                for (path, kind), v in zip(combo, vals):
                    dd = with_slot(dd, path, v)
                yield dd


# ---------------------------------------------------------------------------
# own serialiser: every spelling of a desc


def _esc_attr(v, q, numeric):
    v = str(v)
    out = []
    for ch in v:
        if numeric and not (ch.isalnum() and ord(ch) < 128):
            out.append("&#%d;" % ord(ch))
        elif ch == "&":
            out.append("&amp;")
        elif ch == "<":
            out.append("&lt;")
        elif ch == q:
            out.append("&quot;" if q == '"' else "&apos;")
        elif ch in "\n\t\r":
            out.append("&#%d;" % ord(ch))
        elif ord(ch) > 126:
            out.append(ch)
        else:
            out.append(ch)
    return "".join(out)


def _esc_text(v, numeric, cdata):
    v = str(v)
    if cdata and "]]>" not in v:
        return "<![CDATA[" + v + "]]>"
    out = []
    for ch in v:
        if numeric and not (ch.isalnum() and ord(ch) < 128) and ch not in " \n\t":
            out.append("&#x%x;" % ord(ch))
        elif ch == "&":
            out.append("&amp;")
        elif ch == "<":
            out.append("&lt;")
        elif ch == ">":
            out.append("&gt;")
        else:
            out.append(ch)
    return "".join(out)


class Spelling:
    __slots__ = ("decl", "indent", "quote", "rev", "empty", "numeric", "cdata", "pad", "ascii", "attrsep")

    def __init__(self, decl=0, indent=0, quote='"', rev=0, empty=0, numeric=0, cdata=0, pad=0, ascii=1, attrsep=" "):
        self.decl, self.indent, self.quote, self.rev = decl, indent, quote, rev
        self.empty, self.numeric, self.cdata, self.pad, self.ascii = empty, numeric, cdata, pad, ascii
        self.attrsep = attrsep  # white space between the tag name / attributes: blank, newline + indent, tab

    def key(self):
        return tuple(getattr(self, s) for s in self.__slots__)

    def __repr__(self):
        return "Spelling(%s)" % ",".join("%s=%r" % (s, getattr(self, s)) for s in self.__slots__)


DECLS = ("", '<?xml version="1.0"?>\n', "<?xml version='1.0' ?>", '<?xml version="1.0" encoding="UTF-8"?>\n')
EMPTY = ("/>", " />", "></%s>", ">\n  </%s>")  # the last: an empty element as a pretty-printer writes it (white space only)


def _asciify(s):
    return "".join(ch if ord(ch) < 127 else "&#%d;" % ord(ch) for ch in s)


def serialise(desc, sp=None):
    sp = sp or Spelling()
    tag, attrs, text, children = desc
    q = sp.quote

    def attrs_s(a):
        a = list(a)
        if sp.rev:
            a.reverse()
        return "".join("%s%s=%s%s%s" % (sp.attrsep, n, q, _esc_attr(v, q, sp.numeric), q) for n, v in a)

    def text_s(t):
        # character references are not interpreted inside CDATA: no CDATA for text that will be asciified
        s = _esc_text(t, sp.numeric, sp.cdata and (not sp.ascii or all(ord(c) < 127 for c in str(t))))
        if sp.pad:
            s = "\n    " + s + "\n  "
        return s

    def elem(tg, a, t, body, level):
        head = "<" + tg + attrs_s(a)
        if (t is None or t == "") and not body:
            e = EMPTY[sp.empty]
            return head + (e % tg if "%s" in e else e)
        inner = text_s(t) if t not in (None, "") else ""
        return head + ">" + inner + body + "</" + tg + ">"

    nl = "\n" if sp.indent else ""
    ind = "  " if sp.indent else ""
    body = ""
    if children:
        body = nl + "".join(ind + elem(ct, ca, ctext, "", 1) + nl for ct, ca, ctext in children)
    out = DECLS[sp.decl] + elem(tag, attrs, text, body, 0)
    if sp.indent:
        out += "\n"
    if sp.ascii:
        out = _asciify(out)
    return out


def spellings(tier="quick"):
    """Pairwise-ish set of spellings for quick, full product for thorough."""
    if tier == "thorough":
        for decl, indent, quote, rev, empty, numeric, cdata, pad in itertools.product(
            range(4), (0, 1), ('"', "'"), (0, 1), range(4), (0, 1), (0, 1), (0, 1)
        ):
            if cdata and numeric:
                continue
            yield Spelling(decl, indent, quote, rev, empty, numeric, cdata, pad, 1)
        yield Spelling(0, 0, '"', 0, 0, 0, 0, 0, 0)  # raw non-ASCII characters (str input)
        yield Spelling(1, 1, "'", 1, 2, 0, 1, 1, 0)
        for sep in ("\n    ", "\t", "  ", "\r\n "):
            yield Spelling(0, 1, '"', 0, 0, 0, 0, 0, 1, attrsep=sep)
            yield Spelling(1, 0, "'", 1, 2, 0, 0, 1, 1, attrsep=sep)
        return
    yield Spelling()
    yield Spelling(1, 1, "'", 1, 1, 0, 0, 0, 1)
    yield Spelling(2, 0, '"', 1, 2, 1, 0, 1, 1)
    yield Spelling(0, 1, "'", 0, 2, 0, 1, 0, 1)
    yield Spelling(1, 0, '"', 0, 0, 0, 1, 1, 0)
    yield Spelling(2, 1, "'", 0, 1, 1, 0, 1, 1)
    yield Spelling(0, 0, "'", 1, 0, 0, 0, 1, 0)
    yield Spelling(3, 0, '"', 0, 1, 0, 0, 0, 1)
    yield Spelling(0, 1, '"', 1, 3, 0, 0, 0, 1)  # empty elements with white space between start and end tag
    yield Spelling(0, 1, '"', 0, 0, 0, 0, 0, 1, attrsep="\n    ")  # one attribute per line
    yield Spelling(1, 0, "'", 1, 2, 0, 0, 0, 1, attrsep="\t")
