"""E6: real Driver subclasses generated with type() from plain-data specs.

spec = dict(
  name="DEV",
  groups=[dict(attr="g1", name="G1", enabled=True, level=0, vectors=[
      dict(attr="v1", kind="text|number|switch|light|blob", name="V1", enabled=True, state="Ok", perm="rw",
           rule="OneOfMany", label=None,
           elements=[dict(attr="a", name="A", default=..., enabled=True, label=None, format="%f", min=0, max=0, step=0)])])],
  depth=1..3)   # class chain length; group i is declared in class number group["level"] (0 = deepest base)

Every call builds FRESH definition objects and FRESH classes: handler registries live on the
definition objects, so nothing may be shared between executions (DESIGN E3).
"""
from indi.device import Driver, properties
from indi.device.driver import DriverMeta

VEC = {
    "text": (properties.TextVector, properties.Text),
    "number": (properties.NumberVector, properties.Number),
    "switch": (properties.SwitchVector, properties.Switch),
    "light": (properties.LightVector, properties.Light),
    "blob": (properties.BLOBVector, properties.BLOB),
}


def build_vector(v):
    vcls, ecls = VEC[v["kind"]]
    els = {}
    for e in v["elements"]:
        kw = dict(label=e.get("label"), default=e.get("default"), enabled=e.get("enabled", True))
        if v["kind"] == "number":
            for k in ("format", "min", "max", "step"):
                if k in e:
                    kw[k] = e[k]
        els[e["attr"]] = ecls(e["name"], **kw)
    kw = dict(label=v.get("label"), state=v.get("state", "Ok"), enabled=v.get("enabled", True), elements=els)
    if v["kind"] != "light":
        kw["perm"] = v.get("perm", "rw")
        if "timeout" in v:
            kw["timeout"] = v["timeout"]
    if v["kind"] == "switch":
        kw["rule"] = v.get("rule", "OneOfMany")
    return vcls(v["name"], **kw)


def build_group(g):
    return properties.Group(g["name"], enabled=g.get("enabled", True), vectors={v["attr"]: build_vector(v) for v in g["vectors"]})


_counter = [0]


def build_class(spec, extra_attrs=None, handlers=None, base_cls=None, base_defs=None, handlers_level=None):
    """returns (cls, defs) where defs[group_attr] = Group definition (for attaching handlers).
    handlers: optional callable(defs) -> dict of extra class attributes (methods decorated with @on)
              applied to the most derived class."""
    depth = spec.get("depth", 1)
    # groups marked inherited=True are declared by base_cls (a class built for another device of the
    # deployment); their definition objects are the base's
    defs = {}
    for g in spec["groups"]:
        if g.get("inherited"):
            defs[g["attr"]] = base_defs[g["attr"]]
        else:
            defs[g["attr"]] = build_group(g)
    _counter[0] += 1
    base = base_cls or Driver
    cls = None
    for level in range(depth):
        dct = {}
        for g in spec["groups"]:
            if g.get("inherited"):
                continue
            if min(g.get("level", depth - 1), depth - 1) == level:
                dct[g["attr"]] = defs[g["attr"]]
        if level == depth - 1:
            dct["name"] = spec["name"]  # NB: a class attribute 'name' shadows the Driver.name property
            if extra_attrs:
                dct.update(extra_attrs)
            if handlers and handlers_level is None:
                dct.update(handlers(defs))
        if handlers and handlers_level is not None and level == min(handlers_level, depth - 1):
            dct.update(handlers(defs))  # handlers declared in a BASE class, inherited by the instantiated class
        cls = DriverMeta("Gen%d_L%d" % (_counter[0], level), (base,), dct)
        base = cls
    return cls, defs


def declared(spec):
    """driver_model: what the definition declares: {vector_name: (group_spec, vector_spec)} over the whole chain."""
    out = {}
    for g in spec["groups"]:
        for v in g["vectors"]:
            out[v["name"]] = (g, v)
    return out


def switch_spec(rule, initial, name="DEV"):
    """one switch vector 'SW' with len(initial) switches S0.., initial = tuple of bools."""
    return dict(
        name=name,
        groups=[
            dict(
                attr="g",
                name="G",
                vectors=[
                    dict(
                        attr="sw",
                        kind="switch",
                        name="SW",
                        rule=rule,
                        elements=[dict(attr="s%d" % i, name="S%d" % i, default="On" if on else "Off") for i, on in enumerate(initial)],
                    )
                ],
            )
        ],
    )
