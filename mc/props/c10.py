"""C10 - number rendering and parsing are mutually inverse and follow INDI conventions.

Bounded-exhaustive: complete resolution grids per sexagesimal format (plus the +-half-unit
neighbours of every grid point, i.e. every carry boundary), printf grids, integers to 1e9,
width-overflowing values; and all strings of the INDI number grammar up to a length bound.
Oracle: mc.ref.indi_numbers (exact rationals), tolerance = one resolution unit.
"""
import itertools
from fractions import Fraction

from mc.ref import indi_numbers as N

LEVEL = "exploration"
ASSUMPTIONS = [
    "tolerance for 'denotes the original value' is one resolution unit of the format (I-12: a rendered field of 60 is accepted)",
    "reals between grid points are represented by the +-half-unit neighbours of every grid point",
    "number grammar strings use digits {0,1,5,9} and are bounded in length",
]

SEXA = {3: 60, 5: 600, 6: 3600, 8: 36000, 9: 360000}


def printf_formats():
    out = []
    for flags in ("", "-", "+", " ", "0"):
        for width in ("", "1", "8"):
            for prec in ("", ".0", ".2", ".6"):
                out.append("%" + flags + width + prec + "f")
            out.append("%" + flags + width + "d")
    return out


def exp_formats(tier):
    """printf's exponent conversions (%e %E %g %G): what a driver declares for values spanning many magnitudes"""
    out = []
    flags = ("", "+", " ") if tier == "quick" else ("", "+", " ", "0", "-", "#")
    precs = ("", ".0", ".3") if tier == "quick" else ("", ".0", ".1", ".3", ".8")
    for conv in "gGeE":
        for fl in flags:
            for width in ("", "12"):
                for prec in precs:
                    out.append("%" + fl + width + prec + conv)
    return out


def exp_values(tier):
    vals = [0.0, -0.0]
    mant = (1, 1.5, 2.5, 5, 9.99, 9.9999995, 1.2345675, 1.00000049, 9.5, 9.95, 1.05) if tier == "quick" else tuple(k / 100 for k in range(100, 1000)) + (9.9999995, 1.2345675, 1.00000049, 9.99999949, 9.995, 9.9995)
    for e in range(-9, 10):
        for m in mant:
            for s in (1, -1):
                v = s * m * 10.0**e
                if abs(v) <= 1e9:
                    vals.append(v)
        for s in (1, -1):
            for d in (-1, 0, 1):
                if e >= 0 and abs(10**e + d) <= 1e9:
                    vals.append(float(s * (10**e + d)))
    R = 2000 if tier == "quick" else 20000
    for k in range(-R, R + 1, 7 if tier == "quick" else 1):
        vals.append(k / 100)
    vals += [999999.0, 999999.5, 1000000.0, 99999.95, 0.0001, 0.00009999995, 123456789.125, -99999999.99, 1e9, -1e9]
    return vals


def sexa_formats():
    out = []
    for fl in SEXA:
        out.append("%%.%dm" % fl)
        out.append("%%%d.%dm" % (fl + 4, fl))
    return out


def shards(tier, seed):
    sh = []
    # sexagesimal grids: (kind, fmt, lo_k, hi_k) in grid units
    ranges = {
        "quick": {3: 360, 5: 360, 6: 3, 8: 0.5, 9: 0.05},
        "thorough": {3: 360, 5: 360, 6: 360, 8: 12, 9: 2},
    }[tier]
    for fl, den in SEXA.items():
        R = ranges[fl]
        K = int(R * den)
        chunk = 30000 if tier == "quick" else 120000
        fmts = ["%%.%dm" % fl] if tier == "quick" else ["%%.%dm" % fl, "%%%d.%dm" % (fl + 4, fl)]
        for fmt in fmts:
            for lo in range(-K, K + 1, chunk):
                sh.append((tier, "sexa", fmt, fl, lo, min(K, lo + chunk - 1)))
        # neighbourhood of every whole degree on [-360, 360] for the fine formats
        if R < 360:
            sh.append((tier, "sexa-degrees", "%%.%dm" % fl, fl, -360, 360))
        # the same formats with a field width (one and two digits, zero-padded): the width is presentation only
        for fmt in ("%%%d.%dm" % (fl + 4, fl), "%%0%d.%dm" % (fl + 6, fl), "%%%d.%dm" % (fl, fl)):
            sh.append((tier, "sexa-degrees", fmt, fl, -90, 90))
    ef = exp_formats(tier)
    for i in range(0, len(ef), 6):
        sh.append((tier, "expfmt", tuple(ef[i : i + 6])))
    pf = printf_formats()
    per = 10
    for i in range(0, len(pf), per):
        sh.append((tier, "printf", tuple(pf[i : i + per])))
    nparse = 16
    for i in range(nparse):
        sh.append((tier, "parse", i, nparse))
    return sh


def sgn(v):
    return "neg" if v < 0 else ("zero" if v == 0 else "pos")


def render_check(values, fmt, res, viol):
    from indi.device import values as V
    from indi.message import checks
    from indi.message.one_parts import OneNumber

    from mc import lib

    exp_conv = fmt[-1] in "eEgG"
    unit = None if exp_conv else N.resolution(fmt)
    for v in values:
        res["evaluations"] += 1
        fv = Fraction(v)
        if exp_conv:
            unit = N.resolution_at(fmt, fv)
        cls = "fmt=%s,sign=%s,%s" % (fmt, sgn(v), "whole" if fv.denominator == 1 else ("small" if abs(fv) < 1 else "frac"))
        try:
            text = V.num_to_str(v, fmt)
        except Exception as e:
            viol("render-raises", cls + "," + lib.exc_site(e), "num_to_str(%r, %r): %r" % (v, fmt, e), {"kind": "render", "fmt": fmt, "value": v})
            continue
        try:
            checks.number(text)
            OneNumber(name="x", value=text)
        except Exception as e:
            shape = "padded" if text != text.strip() else ("exponent" if "e" in text.lower() else ("plus" if text.startswith("+") else "other"))
            viol("render-rejected-by-validator", "fmt=%s,text=%s" % ("%" + fmt[-1] if exp_conv else fmt, shape), "num_to_str(%r, %r) = %r rejected: %r" % (v, fmt, text, e), {"kind": "render", "fmt": fmt, "value": v})
        d = N.denotes(text)
        if d is None:
            viol("render-not-a-number", cls, "num_to_str(%r, %r) = %r" % (v, fmt, text), {"kind": "render", "fmt": fmt, "value": v})
        elif abs(d - fv) > unit:
            viol("render-denotes", cls, "num_to_str(%r, %r) = %r denotes %s (off by %s units)" % (v, fmt, text, float(d), float(abs(d - fv) / unit)), {"kind": "render", "fmt": fmt, "value": v})
        try:
            back = V.str_to_num(text, fmt)
        except Exception as e:
            viol("parse-own-raises", "fmt=%s,%s" % (fmt, type(e).__name__), "str_to_num(%r, %r): %r" % (text, fmt, e), {"kind": "render", "fmt": fmt, "value": v})
            continue
        if back is None or abs(Fraction(back) - fv) > unit:
            viol("roundtrip", cls, "str_to_num(num_to_str(%r)) = %r via %r (fmt %r)" % (v, back, text, fmt), {"kind": "render", "fmt": fmt, "value": v})
        res["counters"]["texts"] = res["counters"].get("texts", 0) + 1


DIG = "0159"


def grammar(tier):
    """INDI number grammar strings (without sign), bounded."""
    ints = ["".join(p) for n in (1, 2, 3) for p in itertools.product(DIG, repeat=n)]
    ints1 = [s for s in ints if len(s) <= 2]
    decs = []
    for a in [""] + ints1:
        for b in [""] + ["".join(p) for n in (1, 2) for p in itertools.product(DIG, repeat=n)]:
            if a == "" and b == "":
                continue
            decs.append(a + "." + b)
    for s in ints:
        yield "int", s
    for s in decs:
        yield "decimal", s
    field = ["0", "5", "00", "05", "30", "59", "9"] if tier == "quick" else ["0", "1", "5", "9", "00", "01", "05", "10", "15", "30", "59", "60"]
    fr = ["", ".0", ".5", ".25"] if tier == "quick" else ["", ".", ".0", ".5", ".9", ".25", ".05"]
    wholes = ["0", "1", "15", "359"]
    for sep in ":; ":
        for w in wholes:
            for m in field:
                for f in fr:
                    yield "sexa2" + ("" if len(m) == 2 else "-1digit"), w + sep + m + f
                for s in field:
                    for f in fr:
                        yield "sexa3" + ("" if len(m) == 2 and len(s) == 2 else "-1digit"), w + sep + m + sep + s + f
    # a decimal fraction in a field that is not the last one (libindi scans every field as a floating-point number)
    for sep in ":; ":
        for a in ("12.5", "1.25", ".5", "12.", "0.5"):
            yield "sexa2-decimal-first-field", a + sep + "30"
            yield "sexa3-decimal-first-field", a + sep + "0" + sep + "36"
        for b in ("30.5", ".5", "7."):
            yield "sexa3-decimal-middle-field", "10" + sep + b + sep + "30"
    # exponent notation (what %e / %g render): not in the property's list of peer syntaxes, so the validator may
    # refuse it - but a text it accepts must parse to the value it denotes
    for mnt in ("1", "5", "1.5", ".5", "1.", "9.99", "0", "10"):
        for e in ("e0", "e5", "E5", "e+08", "e-05", "E-1", "e09", "e+0"):
            yield "exponent", mnt + e
    # mixed separators
    for w in wholes[:2]:
        for s1, s2 in ((":", " "), (";", ":"), (" ", ";")):
            yield "sexa3-mixedsep", w + s1 + "30" + s2 + "15"


PARSE_FMTS = ["%f", "%.2f", "%d", "%.3m", "%.5m", "%.6m", "%.8m", "%.9m"]


_ELDEV = {}


def element_device():
    """a real driver with one number element per format of PARSE_FMTS: the path a peer's number text takes in a
    device (newNumberVector -> vector -> element -> stored value)"""
    if "dev" not in _ELDEV:
        from indi.routing import Router

        from mc.gen import drivers as D

        els = [dict(attr="e%d" % i, name="E%d" % i, default=0.0, format=f, min=-1e12, max=1e12, step=0) for i, f in enumerate(PARSE_FMTS)]
        spec = dict(name="NUMDEV", groups=[dict(attr="g", name="G", vectors=[dict(attr="n", kind="number", name="N", elements=els)])])
        cls, _ = D.build_class(spec)
        _ELDEV["dev"] = cls(router=Router())
    return _ELDEV["dev"]


def element_parse(s, i):
    """value stored by the element with format PARSE_FMTS[i] after a client wrote the text s"""
    import indi.message as M
    from indi.message.one_parts import OneNumber

    dev = element_device()
    vec = dev.g.n
    el = getattr(vec, "e%d" % i)
    el.reset_value(0.0)
    vec.from_new_message(M.NewNumberVector(device="NUMDEV", name="N", children=[OneNumber(name="E%d" % i, value=s)]))
    return el._value


def parse_check(idx, n, tier, res, viol):
    from indi.device import values as V
    from indi.message.one_parts import OneNumber

    j = -1
    for shape, body in grammar(tier):
        for sign in ("", "-"):
            j += 1
            if j % n != idx:
                continue
            s = sign + body
            want = N.denotes(s)
            if want is None:
                raise AssertionError("reference does not accept grammar string %r" % s)
            sepname = {":": "colon", ";": "semicolon", " ": "blank"}
            sep = next((sepname[c] for c in s if c in sepname), "none")
            disc_s = "shape=%s,sep=%s,sign=%s" % (shape, sep, "neg" if sign else "pos")
            res["evaluations"] += 1
            try:
                OneNumber(name="x", value=s)
            except Exception as e:
                if shape == "exponent":
                    res["counters"]["exponent_refused"] = res["counters"].get("exponent_refused", 0) + 1
                    continue
                viol("validator-rejects-legal", disc_s, "OneNumber(value=%r): %r" % (s, e), {"kind": "parse", "text": s})
            for fmt in PARSE_FMTS:
                res["evaluations"] += 1
                fclass = "sexa" if fmt.endswith("m") else "printf"
                try:
                    got = V.str_to_num(s, fmt)
                except Exception as e:
                    viol("parse-raises", "fmt=%s,%s" % (fclass, disc_s), "str_to_num(%r, %r): %r" % (s, fmt, e), {"kind": "parse", "text": s, "fmt": fmt})
                    continue
                if got is None or abs(Fraction(got) - want) > Fraction(1, 10**9) * (1 + abs(want)):
                    viol("parse-value", "fmt=%s,%s" % (fclass, disc_s), "str_to_num(%r, %r) = %r, denotes %s" % (s, fmt, got, float(want)), {"kind": "parse", "text": s, "fmt": fmt})
                # the same text written by a client to a device's number element of that format
                if want != 0:
                    res["evaluations"] += 1
                    try:
                        stored = element_parse(s, PARSE_FMTS.index(fmt))
                    except Exception as e:
                        viol("element-parse-raises", "fmt=%s,%s" % (fclass, disc_s), "element with format %r written %r: %r" % (fmt, s, e), {"kind": "parse", "text": s, "fmt": fmt})
                        continue
                    if stored is None or abs(Fraction(stored) - want) > Fraction(1, 10**9) * (1 + abs(want)):
                        viol("element-parse-value", "fmt=%s,%s" % (fclass, disc_s), "element with format %r written %r stores %r, the text denotes %s" % (fmt, s, stored, float(want)), {"kind": "parse", "text": s, "fmt": fmt})
            res["counters"]["strings"] = res["counters"].get("strings", 0) + 1


def printf_values(fmt, tier):
    unit = N.resolution(fmt)
    den = unit.denominator
    vals = []
    if den <= 100:
        R = 100 if tier == "thorough" else 20
        for k in range(-R * den, R * den + 1):
            vals.append(k / den)
            vals.append((k + 0.4999) / den)
            vals.append((k + 0.5001) / den)
    else:
        for k in range(-3000, 3001):
            vals.append(k / den)
            vals.append((k + 0.4999) / den)
        for w in range(-20, 21):
            for k in (-1, 0, 1):
                vals.append(w + k / den)
    for e in range(0, 10):
        for s in (1, -1):
            for dlt in (-1, 0, 1):
                vals.append(float(s * (10**e + dlt)))
            vals.append(s * (10**e + 0.5))
    vals += [0.0, -0.0, 0.5, -0.5, 0.25, -0.25, 0.999999, -0.999999, 1e9, -1e9, 123456789.125, -99999999.99]
    return vals


def run_shard(shard):
    tier, what = shard[0], shard[1]
    res = {"evaluations": 0, "violations": [], "samples": [], "counters": {}}
    sig = {}

    def viol(clause, disc, whatmsg, replay):
        key = (clause, disc)
        if key in sig:
            sig[key]["count"] += 1
            return
        sig[key] = {"clause": clause, "disc": disc, "what": whatmsg, "count": 1, "replay": replay}

    if what == "sexa":
        _, _, fmt, fl, lo, hi = shard
        den = SEXA[fl]

        def gen():
            for k in range(lo, hi + 1):
                yield k / den
                yield (k + 0.4999) / den
                yield (k + 0.5001) / den

        render_check(gen(), fmt, res, viol)
        if lo <= 0 <= hi:
            res["samples"].append({"fmt": fmt, "grid_unit": "1/%d" % den, "range_units": [lo, hi], "example_values": [-0.5, 59.5 / 60, 1 / den]})
    elif what == "sexa-degrees":
        _, _, fmt, fl, lo, hi = shard
        den = SEXA[fl]

        def gen():
            for w in range(lo, hi + 1):
                for k in range(-6, 7):
                    yield w + k / den
                    yield w + (k + 0.4999) / den
                    yield w + (k + 0.5001) / den
                # around every minute boundary of this degree
                for m in (1, 30, 59):
                    for k in (-1, 0, 1):
                        yield w + m / 60 + k / den
                        yield w + m / 60 + (k + 0.5001) / den

        render_check(gen(), fmt, res, viol)
    elif what == "expfmt":
        for fmt in shard[2]:
            render_check(exp_values(tier), fmt, res, viol)
        res["samples"].append({"formats": list(shard[2])[:4], "example_values": [1e8, 9.9999995e5, 1.5e-7]})
    elif what == "printf":
        for fmt in shard[2]:
            render_check(printf_values(fmt, tier), fmt, res, viol)
        res["samples"].append({"formats": list(shard[2])[:4], "example_values": [1.5, -0.005, 1e9]})
    elif what == "parse":
        parse_check(shard[2], shard[3], tier, res, viol)
        if shard[2] == 0:
            res["samples"].append({"grammar_examples": ["-1:30", "15;05;59.25", "0 30", ".5", "10."], "formats": PARSE_FMTS})
    res["violations"] = list(sig.values())
    return res


def finish(tier, seed, m):
    cov = {
        "evaluations": m["evaluations"],
        "distinct_nontrivial": m["counters"].get("texts", 0) + m["counters"].get("strings", 0),
        "rule": "render side: every (format, value) pair of the grids is distinct by construction and non-trivial when "
        "the library produced a text for it (counted as 'texts'); parse side: distinct signed grammar strings ('strings'), each "
        "tried against 8 formats; evaluations counts library calls groups (one render pipeline or one parse)",
        "rendered_texts": m["counters"].get("texts", 0),
        "grammar_strings": m["counters"].get("strings", 0),
        "samples": m["samples"][:6],
        "exhaustive": True,
    }
    errs = []
    if m["counters"].get("strings", 0) < 1000:
        errs.append("few grammar strings")
    cov["_vacuity_errors"] = errs
    return cov


def replay(rep):
    res = {"evaluations": 0, "counters": {}}
    out = []

    def viol(clause, disc, what, replay):
        out.append({"clause": clause, "disc": disc, "what": what})

    if rep["kind"] == "render":
        render_check([rep["value"]], rep["fmt"], res, viol)
    else:
        from indi.device import values as V
        from indi.message.one_parts import OneNumber

        s = rep["text"]
        want = N.denotes(s)
        if "fmt" in rep:
            try:
                got = V.str_to_num(s, rep["fmt"])
                if got is None or abs(Fraction(got) - want) > Fraction(1, 10**9) * (1 + abs(want)):
                    out.append({"clause": "parse-value", "disc": "", "what": "%r -> %r" % (s, got)})
            except Exception as e:
                out.append({"clause": "parse-raises", "disc": "", "what": repr(e)})
            if want != 0:
                try:
                    stored = element_parse(s, PARSE_FMTS.index(rep["fmt"]))
                    if stored is None or abs(Fraction(stored) - want) > Fraction(1, 10**9) * (1 + abs(want)):
                        out.append({"clause": "element-parse-value", "disc": "", "what": "%r -> %r" % (s, stored)})
                except Exception as e:
                    out.append({"clause": "element-parse-raises", "disc": "", "what": repr(e)})
        else:
            try:
                OneNumber(name="x", value=s)
            except Exception as e:
                out.append({"clause": "validator-rejects-legal", "disc": "", "what": repr(e)})
    return out
