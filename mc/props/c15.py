"""C15 - the client mirrors any server's property stream faithfully and survives it.

(1) Explicit-state model checking: the reachable mirror-state graph for a message alphabet
    is enumerated to FIXPOINT (over the reference interpreter's states); every transition is
    executed on the real BaseClient (state reached by replaying the BFS-tree path through the
    real parser, from foreign spellings) and compared - public view and raised events - with
    the reference interpreter.  Also for SnoopingClient.
(2) Every stream of <=2 alphabet messages through the real client ConnectionHandler receive
    loop on the virtual loop (whole / small chunks / every single cut): the receive task must
    still be pending and the mirror equal to the model.
"""
from mc.props import client_common as CC
from mc.ref import client_model as CM
from mc.ref import xmlview as X

LEVEL = "model_checking"
ASSUMPTIONS = [
    "I-15: the alphabet contains only messages the library's parser accepts (set messages always carry state)",
    "I-2: re-sending an identical BLOB may or may not raise ValueUpdate; empty BLOB payload may show as None or as an empty BLOB",
    "the state graph is enumerated over reference-model states; each real execution re-checks that the real client's public view equals the model state it is supposed to be in",
]
NSH = 16
_cache = {}


def graph(tier):
    if tier not in _cache:
        alpha = CC.alphabet(tier)
        _cache[tier] = (alpha, CC.model_graph(alpha))
    return _cache[tier]


def shards(tier, seed):
    graph(tier)  # computed once in the parent; workers inherit it through fork
    sh = [(tier, "graph", i, False) for i in range(NSH)]
    sh += [(tier, "graph", i, True) for i in range(0, NSH, 4)]
    sh += [(tier, "stream", i) for i in range(8)]
    sh.append((tier, "startup", 0))
    return sh


def discr(desc, why):
    tag = desc[0]
    extra = ""
    if tag == "delProperty" and not any(n == "name" for n, _ in desc[1]):
        extra = ",device-level"
    if tag == "setBLOBVector" and desc[3] and desc[3][0][2] is None:
        extra = ",payload=" + ("empty" if dict(desc[3][0][1]).get("size") == "0" else "absent")
    return "msg=%s%s,%s" % (tag, extra, why)


def check_transition(alpha, views, path, ai, snoop, res, viol, second_history=False):
    rc = CC.RealClient(snoop)
    m = CM.Mirror()
    for k, pi in enumerate(path):
        ev, exc = rc.feed(alpha[pi], k)
        m.step(views[pi])
        if exc is not None:
            if second_history and ai == 0:
                from mc import lib

                viol("raises", discr(alpha[pi], lib.exc_site(exc)) + ",second-history", "history %r: message %d raised %r" % (path, k, exc), {"kind": "graph", "path": list(path[:k]), "msg": pi, "snoop": snoop})
            return  # reported at the transition where it first happens
    if not CC.views_equal(rc.view(), m.canon()):
        if second_history and ai == 0:
            # not a BFS-tree path: nobody else reports what this history does to the view
            viol("mirror-differs", discr(alpha[path[-1]], "view") + ",second-history", "after the history %r: client %r, reference %r" % (path, rc.view(), m.canon()), {"kind": "graph", "path": list(path[:-1]), "msg": path[-1], "snoop": snoop})
        return  # divergence already reported on an earlier transition
    before_view = rc.view()
    must, may = m.step(views[ai])
    got, exc = rc.feed(alpha[ai], len(path))
    res["transitions"] += 1
    rep = {"kind": "graph", "path": list(path), "msg": ai, "snoop": snoop}
    if exc is not None:
        from mc import lib

        viol("raises", discr(alpha[ai], lib.exc_site(exc)), "after %r message %r: %r" % (path, alpha[ai], exc), rep)
        return
    if not CC.views_equal(rc.view(), m.canon()):
        viol("mirror-differs", discr(alpha[ai], "view"), "after %r + %r: client %r, reference %r" % (path, alpha[ai], rc.view(), m.canon()), rep)
    # independent of the reference interpreter: an event is raised iff the value changed (the client's own view)
    if exc is None:
        bv = {(d, p): dict(pr[4]) for d, props in before_view for p, pr in props}
        av = {(d, p): dict(pr[4]) for d, props in rc.view() for p, pr in props}
        for e in got:
            same_obj = len(e) > 6 and e[6]
            if e[0] == "ValueUpdate" and e[4] is not None and ((e[4] == e[5] and not isinstance(e[4], tuple)) or same_obj):  # equal BLOBs in distinct objects: I-2
                viol("event-without-change", discr(alpha[ai], "ValueUpdate"), "after %r + %r: event %r has identical old and new value" % (path, alpha[ai], e), rep)
        if not alpha[ai][0].startswith("def"):
            for key, els in av.items():
                for en, val in els.items():
                    old = bv.get(key, {}).get(en, "<new>")
                    if old != "<new>" and old != val and not any(e[0] == "ValueUpdate" and (e[1], e[2], e[3]) == (key[0], key[1], en) for e in got):
                        viol("change-without-event", discr(alpha[ai], "ValueUpdate"), "after %r + %r: %s/%s.%s changed %r -> %r without a ValueUpdate" % (path, alpha[ai], key[0], key[1], en, old, val), rep)
    ok, why = CC.events_ok(got, must, may)
    if not ok:
        viol("events-differ", discr(alpha[ai], why.split(" (")[0].split(" ")[0] + "-event"), "after %r + %r: %s; got %r" % (path, alpha[ai], why, got), rep)
    res["counters"]["events"] = res["counters"].get("events", 0) + len(got)


def stream_cases(alpha, idx, n, tier):
    k = -1
    for i, a in enumerate(alpha):
        k += 1
        if k % n == idx:
            yield (i,), "cuts"
    for i, a in enumerate(alpha):
        for j, b in enumerate(alpha):
            k += 1
            if k % n == idx:
                yield (i, j), "chunks"


def run_stream(alpha, views, seq, mode, res, viol):
    from indi.transport.client.tcp import ConnectionHandler

    from mc.core import vloop as V

    text = "".join(CC.wire(alpha[i], k) + ("\n" if k % 2 else "") for k, i in enumerate(seq))
    data = text.encode("latin1", "xmlcharrefreplace")
    if mode == "cuts":
        feeds = [[data]] + [[data[:c], data[c:]] for c in range(1, len(data), 3)]
    else:
        feeds = [[data], [data[j : j + 7] for j in range(0, len(data), 7)]]
    m = CM.Mirror()
    for i in seq:
        m.step(views[i])
    for pieces in feeds:
        loop = V.VLoop().install()
        try:
            rc = CC.RealClient(False)
            ep = V.Endpoint(loop, "c")
            h = ConnectionHandler(ep.reader, ep.writer, rc.client.process_message)
            task = loop.create_task(h.wait_for_messages())
            loop.quiesce()
            for p in pieces:
                ep.feed(p)
                loop.quiesce()
            res["transitions"] += len(pieces)
            rep = {"kind": "stream", "seq": list(seq), "pieces": [len(p) for p in pieces]}
            last = alpha[seq[-1]]
            if task.done():
                exc = task.exception() if not task.cancelled() else None
                from mc import lib

                culprit = next((alpha[i] for i in seq if alpha[i][0] == "setBLOBVector" and alpha[i][3] and alpha[i][3][0][2] is None), last)
                viol("receive-loop-stopped", discr(culprit, lib.exc_site(exc) if exc else "returned"), "stream %r: receive task ended: %r" % (seq, exc), rep)
            elif not CC.views_equal(rc.view(), m.canon()):
                viol("mirror-differs-after-stream", discr(last, "view"), "stream %r pieces %r: client %r reference %r" % (seq, [len(p) for p in pieces], rc.view(), m.canon()), rep)
            errs = loop.collect_errors()
            if errs:
                viol("loop-error", discr(last, "loop"), repr(errs), rep)
        finally:
            loop.teardown()
        res["streams"] = res.get("streams", 0) + 1


def run_raw_nonascii(res, viol):
    """liveness only (I-8): a peer that sends raw UTF-8 or ISO-8859-1 bytes in labels / values must not stop the
    receive loop, whatever the fragmentation; the ASCII parts of the stream must still be mirrored"""
    from indi.transport.client.tcp import ConnectionHandler

    from mc.core import vloop as V

    text = ('<defTextVector device="D1" name="V1" state="Ok" perm="rw" label="Temp\u00e9rature \u00b0C \u2603"><defText name="a" label="\u00b5">t1</defText></defTextVector>'
            '<setTextVector device="D1" name="V1" state="Busy"><oneText name="a">t2</oneText></setTextVector>')
    for enc in ("utf-8", "latin-1"):
        data = text.encode(enc, "xmlcharrefreplace")
        feeds = [[data], [bytes([b]) for b in data]] + [[data[:c], data[c:]] for c in range(1, len(data))]
        for pieces in feeds:
            loop = V.VLoop().install()
            try:
                rc = CC.RealClient(False)
                ep = V.Endpoint(loop, "c")
                h = ConnectionHandler(ep.reader, ep.writer, rc.client.process_message)
                task = loop.create_task(h.wait_for_messages())
                loop.quiesce()
                for p in pieces:
                    ep.feed(p)
                    loop.quiesce()
                res["transitions"] += len(pieces)
                rep = {"kind": "raw", "enc": enc, "pieces": [len(p) for p in pieces]}
                if task.done():
                    exc = task.exception() if not task.cancelled() else None
                    viol("receive-loop-stopped", "raw-%s-bytes,%s" % (enc, type(exc).__name__ if exc else "returned"), "pieces %r: %r" % ([len(p) for p in pieces][:6], exc), rep)
                else:
                    dev = rc.client.get_device("D1")
                    vec = dev.get_vector("V1") if dev else None
                    if vec is None or vec.state != "Busy" or vec.get_element("a") is None or vec.get_element("a").value != "t2":
                        viol("mirror-differs-after-stream", "raw-%s-bytes" % enc, "pieces %r: ASCII parts of the stream not mirrored" % ([len(p) for p in pieces][:6],), rep)
            finally:
                loop.teardown()
            res["streams"] = res.get("streams", 0) + 1


def run_startup(res, viol):
    """the full Client (control + BLOB connection) starting up against a server whose devices announce a property while
    only one of the two connections is established yet (either order), or afterwards: no receive loop may stop and the
    announced property must be mirrored"""
    from mc.core import e2e
    from mc.gen import deploy as DP
    from mc.ref import driver_model as DM

    for variant in ("text", "blob", "switch-OneOfMany"):
        for order in (None, ("ctl", "blob"), ("blob", "ctl")):
            for announce in (False, True):
                if order is None and announce:
                    continue
                specs = DP.deployment(variant=variant, ndev=1)
                w = e2e.World(specs)
                rep = {"kind": "startup"}
                try:
                    between = None
                    if announce:

                        def between():
                            DM.live_group(w.devices[0], specs[0]["groups"][0]).vectors["t"].enabled = True

                    try:
                        c = w.make_client(order, between)
                    except Exception as e:  # noqa
                        viol("receive-loop-stopped", "client-start-up,connect=%s,announce=%s,%s" % ("-".join(order) if order else "at-once", announce, type(e).__name__), repr(e), rep)
                        continue
                    DM.live_group(w.devices[0], specs[0]["groups"][0]).vectors["t"].state_ = "Busy"
                    w.settle()
                    res["transitions"] += 3
                    res["streams"] = res.get("streams", 0) + 1
                    errs = w.loop.collect_errors()
                    d = "client-start-up,connect=%s,announce=%s" % ("-".join(order) if order else "at-once", announce)
                    if errs:
                        viol("receive-loop-stopped", d, "errors in the client's tasks: %r" % ([e.get("message") for e in errs][:2],), rep)
                    dev = c.get_device("DEV0")
                    vec = dev.get_vector("TGT") if dev else None
                    if vec is None or (vec.state != "Busy" and variant != "blob"):
                        viol("mirror-differs-after-stream", d, "after start-up and a state change the client shows %r" % (None if vec is None else vec.state,), rep)
                finally:
                    w.close()


def run_shard(shard):
    tier, what = shard[0], shard[1]
    alpha, order = graph(tier)
    views = [X.view_of_desc(d) for d in alpha]
    res = {"states": 0, "transitions": 0, "violations": [], "samples": [], "counters": {}}
    sig = {}

    def viol(clause, disc, whatmsg, replay):
        key = (clause, disc)
        if key in sig:
            sig[key]["count"] += 1
        else:
            sig[key] = {"clause": clause, "disc": disc, "what": whatmsg, "count": 1, "replay": dict(replay, tier=tier)}

    if what == "graph":
        idx, snoop = shard[2], shard[3]
        n = NSH
        for si, (canon, path) in enumerate(order):
            if si % n != idx:
                continue
            if snoop and si % 7:
                continue
            res["states"] += 1
            for ai in range(len(alpha)):
                check_transition(alpha, views, path, ai, snoop, res, viol)
            alt = getattr(order, "alt", {}).get(si)
            if alt is not None and not snoop:
                # the same model state entered by another, longer history: same view, same transitions
                res["counters"]["states_entered_by_a_second_history"] = res["counters"].get("states_entered_by_a_second_history", 0) + 1
                for ai in range(len(alpha)):
                    check_transition(alpha, views, alt, ai, snoop, res, viol, second_history=True)
        if idx == 0 and not snoop:
            res["samples"].append({"alphabet_size": len(alpha), "model_states": len(order), "max_depth": max(len(p) for _, p in order), "example_path": [alpha[i][0] for i in order[-1][1]]})
            res["counters"]["model_states"] = len(order)
            res["counters"]["max_depth"] = max(len(p) for _, p in order)
    elif what == "startup":
        run_startup(res, viol)
    else:
        if shard[2] == 0:
            run_raw_nonascii(res, viol)
        for seq, mode in stream_cases(alpha, shard[2], 8, tier):
            run_stream(alpha, views, seq, mode, res, viol)
    res["violations"] = list(sig.values())
    return res


def finish(tier, seed, m):
    cov = {
        "states": m["counters"].get("model_states", m["states"]),
        "transitions": m["transitions"],
        "traces_validated_against_impl": m["transitions"],
        "states_expanded_on_impl": m["states"],
        "max_depth": m["counters"].get("max_depth", 0),
        "events_compared": m["counters"].get("events", 0),
        "streams_through_receive_loop": m.get("streams", 0),
        "samples": m["samples"][:2],
        "exhaustive": True,
        "explanation": "reachable mirror-state graph enumerated to fixpoint; every (state, message) transition executed on the real client from a replayed path",
    }
    cov["_vacuity_errors"] = [] if m["counters"].get("events", 0) > 1000 else ["few events compared"]
    return cov


def replay(rep):
    tier = rep.get("tier", "quick")
    alpha = CC.alphabet(tier)
    views = [X.view_of_desc(d) for d in alpha]
    out = []
    res = {"transitions": 0, "counters": {}}

    def viol(clause, disc, what, replay):
        out.append({"clause": clause, "disc": disc, "what": what})

    if rep["kind"] == "startup":
        run_startup(res, viol)
    elif rep["kind"] == "raw":
        run_raw_nonascii(res, viol)
    elif rep["kind"] == "graph":
        check_transition(alpha, views, tuple(rep["path"]), rep["msg"], rep["snoop"], res, viol)
    else:
        run_stream(alpha, views, tuple(rep["seq"]), "chunks", res, viol)
    return out
