"""Shared harness for C04 / C05: the real Router with recording endpoints, a boring
reference model, the event alphabet, and the explicit-state search."""
import itertools
from collections import deque

from mc.core.bufgraph import snap
from mc.gen import messages as G

DEVNAMES = ("A", "B")
ADDR = ("A", "B", None, "unknown", "")  # "" = a device attribute that is present but empty: it names no device
POLS = ("Never", "Also", "Only")


_MSG_CACHE = {}


def msg_of(kind, dev):
    """one representative library message of a kind addressed to dev (None = no device attr).
    Cached: the router and the recorders never mutate a message."""
    key = (kind, dev)
    if key not in _MSG_CACHE:
        _MSG_CACHE[key] = _msg_of(kind, dev)
    return _MSG_CACHE[key]


CRAFTED = {"from_device": ' from_device="1"', "from_client-empty": ' from_client=""', "from_client": ' from_client="1"', "from_device-empty": ' from_device=""'}


def _msg_of(kind, dev):
    from mc import lib

    extra = None
    childless = kind.endswith("~0")  # a vector message without child elements (a state-only update, an empty definition)
    if childless:
        kind = kind[:-2]
    if "+" in kind:
        # a message that arrives over the wire with an additional, unknown attribute named like an internal flag
        kind, extra = kind.split("+", 1)
    k = G.KINDS[kind]
    d = G.skeleton(kind, (), 1 if k.child and not childless else 0)
    attrs = tuple((n, v) for n, v in d[1] if n != "device")
    names = [n for n, _ in k.req + k.opt]
    if "device" in names and dev is not None:
        attrs = (("device", dev),) + attrs
    req = [n for n, _ in k.req]
    if "device" in req and dev is None:
        return None  # kind cannot be built without a device
    if "device" not in names and dev is not None:
        return None  # kind has no device attribute: only the unaddressed form exists
    m = lib.build((kind, attrs, d[2], d[3]))
    # as in real use, the router sees messages that came out of the parser (attribute and text values are
    # fresh str objects, never the interned constants of indi.message.const)
    import indi.message as M

    data = m.to_string().decode("latin1")
    if extra:
        i = data.index("<" + kind) + len(kind) + 1
        data = data[:i] + CRAFTED[extra] + data[i:]
    return M.IndiMessage.from_string(data)


def base_kind(kind):
    return kind.split("+")[0].split("~")[0]


_DEV_CLASSES = {}
_ENABLE_CACHE = {}


def enable_msg(dev, value):
    """enableBLOB as it comes out of the parser (cached: nothing mutates a message)"""
    key = (dev, value)
    if key not in _ENABLE_CACHE:
        from indi.message import EnableBLOB, IndiMessage

        _ENABLE_CACHE[key] = IndiMessage.from_string(EnableBLOB(device=dev, value=value).to_string())
    return _ENABLE_CACHE[key]


class Sys:
    """real Router + recording endpoints; built fresh for every execution."""

    def __init__(self, nclients):
        from indi.routing import Client, Device, Router

        from mc.gen import drivers as D

        self.router = Router()
        self.log = []
        outer = self

        class RecClient(Client):
            def __init__(self, idx):
                self.idx = idx

            def message_from_device(self, message):
                outer.log.append(("c", self.idx, message))

            def __repr__(self):
                return "c%d" % self.idx

        class CatchAll(Device):
            idx = 2

            def accepts(self, device):
                return True

            def message_from_client(self, message):
                outer.log.append(("d", 2, message))

        self.clients = [RecClient(i) for i in range(nclients)]
        self.devices = []
        for i, name in enumerate(DEVNAMES):
            spec = dict(name=name, groups=[dict(attr="g", name="G", vectors=[dict(attr="t", kind="text", name="T", elements=[dict(attr="a", name="a", default="x")])])])
            if name not in _DEV_CLASSES:
                _DEV_CLASSES[name] = D.build_class(spec)[0]
            cls = _DEV_CLASSES[name]  # one generated class per device name, a fresh instance per execution
            dev = cls()  # router attached on register event
            dev.idx = i

            def rec(message, i=i):
                outer.log.append(("d", i, message))

            dev.message_from_client = rec  # recorder instead of the driver's own handling; accepts() stays real
            self.devices.append(dev)
        self.devices.append(CatchAll())

    def endpoint(self, ref):
        if ref is None:
            return None
        kind, i = ref
        return self.clients[i] if kind == "c" else self.devices[i]

    def apply(self, ev):
        """returns (deliveries [(kind, idx)], exception or None)"""
        from indi.message import EnableBLOB

        self.log.clear()
        exc = None
        try:
            op = ev[0]
            if op == "regdev":
                self.router.register_device(self.devices[ev[1]])
            elif op == "regcli":
                self.router.register_client(self.clients[ev[1]])
            elif op == "unregcli":
                self.router.unregister_client(self.clients[ev[1]])
            elif op == "enable":
                self.router.process_message(enable_msg(ev[2], ev[3]), sender=self.clients[ev[1]])
            elif op == "send":
                _, kind, dev, sender = ev
                m = msg_of(kind, dev)
                self.router.process_message(m, sender=self.endpoint(sender))
        except Exception as e:  # noqa
            exc = e
        return [(k, i) for k, i, m in self.log], exc

    def canon(self):
        r = self.router
        v = dict(vars(r))
        cl = v.pop("clients")
        dv = v.pop("devices")
        br = v.pop("blob_routing")
        return (
            tuple(sorted(c.idx for c in cl)),
            tuple(sorted(d.idx for d in dv)),
            tuple(sorted((getattr(c, "idx", repr(c)), tuple(sorted((repr(k), str(p)) for k, p in pm.items()))) for c, pm in br.items())),
            self._rsnap(v),
        )

    def _rsnap(self, obj, depth=0):
        """snapshot of any further router attributes (hidden state a refactoring may add: caches, counters ...)
        with endpoints replaced by stable tokens and no object addresses"""
        if obj is None or isinstance(obj, (bool, int, float, str, bytes)):
            return obj
        if any(obj is c for c in self.clients):
            return ("client", obj.idx)
        if any(obj is d for d in self.devices):
            return ("device", obj.idx)
        if isinstance(obj, dict):
            return tuple(sorted(((repr(self._rsnap(k, depth + 1)), self._rsnap(v, depth + 1)) for k, v in obj.items()), key=repr))
        if isinstance(obj, (list, tuple)):
            return tuple(self._rsnap(x, depth + 1) for x in obj)
        if isinstance(obj, (set, frozenset)):
            return tuple(sorted((self._rsnap(x, depth + 1) for x in obj), key=repr))
        if depth < 4 and hasattr(obj, "__dict__") and not isinstance(obj, type):
            return (type(obj).__name__,) + tuple(sorted((k, self._rsnap(v, depth + 1)) for k, v in vars(obj).items()))
        return type(obj).__name__


class Model:
    """boring reference: sets and a dict."""

    def __init__(self):
        self.clients = []  # list of idx (multiset)
        self.devices = []
        self.pol = {}

    def copy(self):
        m = Model()
        m.clients = list(self.clients)
        m.devices = list(self.devices)
        m.pol = {c: dict(p) for c, p in self.pol.items()}
        return m

    def accepts(self, d, dev):
        return d == 2 or dev is None or DEVNAMES[d] == dev

    def policy(self, c, dev):
        return self.pol.get(c, {}).get(dev, "Never")

    def step(self, ev):
        """returns expected deliveries as (devices list, clients list) multisets."""
        op = ev[0]
        if op == "regdev":
            self.devices.append(ev[1])
            return [], []
        if op == "regcli":
            self.clients.append(ev[1])
            self.pol[ev[1]] = {}
            return [], []
        if op == "unregcli":
            if ev[1] in self.clients:
                self.clients.remove(ev[1])
            self.pol.pop(ev[1], None)
            return [], []
        if op == "enable":
            c, dev, p = ev[1], ev[2], ev[3]
            self.pol[c][dev] = p
            return [d for d in self.devices if self.accepts(d, dev)], []
        _, kind, dev, sender = ev
        kind = base_kind(kind)  # crafted attributes / missing children do not change what a message is
        k = G.KINDS[kind]
        to_dev, to_cli = [], []
        if k.origin in ("client", "both"):
            to_dev = [d for d in self.devices if sender != ("d", d) and self.accepts(d, dev)]
        if k.origin in ("device", "both"):
            for c in self.clients:
                if sender == ("c", c):
                    continue
                p = self.policy(c, dev)
                if (kind == "setBLOBVector" and p in ("Also", "Only")) or (kind != "setBLOBVector" and p in ("Never", "Also")):
                    to_cli.append(c)
        return to_dev, to_cli


def structural_events(model, nclients):
    for d in range(3):
        if d not in model.devices:
            yield ("regdev", d)
    for c in range(nclients):
        if c not in model.clients:
            yield ("regcli", c)
        else:
            yield ("unregcli", c)
            for dev in DEVNAMES:
                for p in POLS:
                    yield ("enable", c, dev, p)


def send_events(model, kinds, nclients=None):
    # clients send whether or not they are (still) registered: registration is about RECEIVING device traffic
    cl = range(nclients) if nclients is not None else model.clients
    senders = [None] + [("c", c) for c in cl] + [("d", d) for d in model.devices]
    for kind in kinds:
        for dev in ADDR:
            if msg_of(kind, dev) is None:
                continue
            for s in senders:
                if kind == "enableBLOB" and s is not None and s[0] == "c":
                    continue  # from a registered client it changes the policy: that is the structural event "enable"
                yield ("send", kind, dev, s)


def prime_sends(model):
    """traffic that a real deployment has seen before any later event: a few messages of both classes to both a
    named and no device, so that whatever a router remembers about past traffic (recipient caches, counters) is
    filled before the next registration / policy change.  Results are not judged here."""
    out = []
    for dev in ("A", None):
        for kind in ("setTextVector", "setBLOBVector", "getProperties"):
            if msg_of(kind, dev) is not None:
                out.append(("send", kind, dev, None))
    for c in model.clients[:1]:
        out.append(("send", "getProperties", "A", ("c", c)))
        out.append(("send", "newTextVector", "B", ("c", c)))
    for d in model.devices[:1]:
        out.append(("send", "setBLOBVector", "B", ("d", d)))
    return out


def primed_path(path):
    """the same history with prime_sends() after every event"""
    out, m = [], Model()
    for ev in prime_sends(m):
        out.append(ev)
    for ev in path:
        out.append(ev)
        m.step(ev)
        out.extend(prime_sends(m))
    return out


def build(path, nclients):
    s = Sys(nclients)
    m = Model()
    for ev in path:
        s.apply(ev)
        m.step(ev)
    return s, m


def explore(nclients, kinds, check, shard_idx=0, nshards=1, primed=False):
    """BFS to fixpoint over structural events; send events are self-loops checked in every state
    whose ordinal % nshards == shard_idx.  check(model_before, ev, deliveries, exc, expected) -> fails"""
    s0, m0 = build([], nclients)
    init = s0.canon()
    parent = {init: None}
    order = {init: 0}
    fr = deque([init])
    stats = dict(states=0, transitions=0, violations=[], sends=0, deliveries=0, nondeliveries=0)
    sigcount = {}

    def keep(fails, path):
        # store the first (shortest: BFS order) witness per signature, count the rest
        new = [f for f in fails if (f[0], f[1]) not in sigcount]
        for f in fails:
            sigcount[(f[0], f[1])] = sigcount.get((f[0], f[1]), 0) + 1
        if new:
            stats["violations"].append((new, path))

    def path_of(st):
        p = []
        while parent[st] is not None:
            st, ev = parent[st]
            p.append(ev)
        p.reverse()
        return p

    depth_limit = 4 * nclients + 6  # the graph of the unchanged router has depth 3 * nclients + 3
    while fr:
        st = fr.popleft()
        path = path_of(st)
        if len(path) > depth_limit:
            # only reachable when hidden history-dependent state makes the graph unbounded (a counter, a log)
            stats["capped"] = stats.get("capped", 0) + 1
            continue
        sysm, model = build(path, nclients)
        if sysm.canon() != st:
            raise AssertionError("replay divergence at %r" % (path,))
        mine = order[st] % nshards == shard_idx
        # self-loop sends: same live system (sends do not change router state; verified below)
        if mine:
            for ev in send_events(model, kinds, nclients):
                mm = model.copy()
                exp = mm.step(ev)
                got, exc = sysm.apply(ev)
                stats["transitions"] += 1
                stats["sends"] += 1
                stats["deliveries"] += len(got)
                stats["nondeliveries"] += (len(model.clients) + len(model.devices)) - len(got)
                fails = check(model, ev, got, exc, exp)
                c_now = sysm.canon()
                if c_now != st:
                    if c_now[:3] != st[:3]:
                        # registration / policy tables changed by a message that must not change them
                        fails = fails + [("send-changed-router-state", "kind=%s" % ev[1], "registration or policy state changed by a send: %r" % (ev,))]
                        sysm, _ = build(path, nclients)
                    else:
                        # only further attributes changed (a cache, a counter): legitimate hidden state. The same live
                        # router keeps being used, as in real life, so whatever the hidden state does to later deliveries
                        # is judged by the delivery oracle; it is counted, not reported.
                        stats["sends_touching_hidden_state"] = stats.get("sends_touching_hidden_state", 0) + 1
                if fails:
                    keep(fails, path + [ev])
        if mine and primed:
            # the same state reached by a history WITH traffic between the events (sends are only self-loops of the
            # registration / policy state; a router that remembers anything about past traffic may answer differently)
            ppath = primed_path(path)
            sysp, _ = build(ppath, nclients)
            if sysp.canon()[:3] == st[:3]:
                for ev in send_events(model, kinds, nclients):
                    mm = model.copy()
                    exp = mm.step(ev)
                    got, exc = sysp.apply(ev)
                    stats["transitions"] += 1
                    stats["sends"] += 1
                    stats["primed_sends"] = stats.get("primed_sends", 0) + 1
                    fails = check(model, ev, got, exc, exp)
                    if sysp.canon()[:3] != st[:3]:
                        fails = fails + [("send-changed-router-state", "kind=%s" % ev[1], "registration or policy state changed by a send: %r" % (ev,))]
                        sysp, _ = build(ppath, nclients)
                    if fails:
                        keep(fails, ppath + [ev])
                for ev in structural_events(model, nclients):
                    s2, _ = build(ppath, nclients)
                    mm = model.copy()
                    exp = mm.step(ev)
                    got, exc = s2.apply(ev)
                    stats["transitions"] += 1
                    fails = check(model, ev, got, exc, exp)
                    c = s2.canon()
                    want = (tuple(sorted(mm.clients)), tuple(sorted(mm.devices)))
                    if not fails and (c[0], c[1]) != want:
                        fails = [("registration-state", "op=%s" % ev[0], "router has clients/devices %r, model %r" % ((c[0], c[1]), want))]
                    polwant = tuple(sorted((ci, tuple(sorted((repr(k), p) for k, p in pm.items()))) for ci, pm in mm.pol.items()))
                    if not fails and c[2] != polwant:
                        fails = [("policy-state", "op=%s" % ev[0], "router blob_routing %r, model %r" % (c[2], polwant))]
                    if fails:
                        keep(fails, ppath + [ev])
            else:
                keep([("send-changed-router-state", "primed-history", "registration or policy state differs after the same events with traffic in between")], ppath)
        for ev in structural_events(model, nclients):
            s2, m2 = build(path, nclients)
            mm = m2
            exp = mm.step(ev)
            got, exc = s2.apply(ev)
            stats["transitions"] += 1
            fails = check(model, ev, got, exc, exp)
            # structural state must match the model
            want = (tuple(sorted(mm.clients)), tuple(sorted(mm.devices)))
            c = s2.canon()
            if not fails and (c[0], c[1]) != want:
                fails = [("registration-state", "op=%s" % ev[0], "router has clients/devices %r, model %r" % ((c[0], c[1]), want))]
            polwant = tuple(sorted((ci, tuple(sorted((repr(k), p) for k, p in pm.items()))) for ci, pm in mm.pol.items()))
            if not fails and c[2] != polwant:
                fails = [("policy-state", "op=%s" % ev[0], "router blob_routing %r, model %r" % (c[2], polwant))]
            if fails:
                if mine:
                    keep(fails, path + [ev])
                continue
            if c not in parent:
                parent[c] = (st, ev)
                order[c] = len(order)
                fr.append(c)
    stats["states"] = len(parent)
    stats["sigcount"] = sigcount
    return stats


def ms(x):
    return sorted(x)
