"""C18 - every way a connection can end leaves the router clean and the others served.

Fault enumeration on the real connection handlers (TCP server handler over real asyncio
streams on a fake transport; TTY handler over real aiofiles wrappers on a controlled
executor): session scripts of 3 TCP connections (+ the TTY connection) with handshake,
enableBLOB, a client write and device traffic x fault kind {EOF, read error, EOF inside a
message, junk then EOF, error while handling one of its messages, peer reset so that writes
to it fail} injected at EVERY step index x every victim x both server transports.
"""
import io

from mc.ref import xmlview as X

LEVEL = "fault_enumeration"
ASSUMPTIONS = [
    "fake transports: close() delivers connection_lost on the next loop iteration as asyncio's selector transports do",
    "'error while handling a message' is produced by a routing.Device whose message_from_client raises for a marker request (Driver-level value errors are contained since the C12 fixes)",
    "exceptions retrieved-never of send tasks writing to a reset peer are counted, not judged",
]
FAULTS = ("eof", "read-error", "eof-in-message", "junk-then-eof", "handler-exception", "peer-reset", "write-error-then-eof", "write-error-then-reset", "write-side-closed-then-eof",
          # the connection ends through an error while undecoded input is still buffered
          "read-error-in-message", "reset-in-message", "handler-exception-pipelined", "long-junk-then-eof")
POLICY = {0: "Also", 1: "Only", 2: None}


def spec():
    return dict(
        name="DEV0",
        groups=[
            dict(
                attr="g",
                name="G",
                vectors=[
                    dict(attr="t", kind="text", name="T", elements=[dict(attr="a", name="A", default="x")]),
                    dict(attr="b", kind="blob", name="B", elements=[dict(attr="a", name="A")]),
                ],
            )
        ],
    )


class Sess:
    def __init__(self, with_tty):
        from indi.routing import Device

        from mc.core import e2e
        from mc.core import vloop as V

        self.w = e2e.World([spec()])
        w = self.w

        class Boom(Device):
            def accepts(self, device):
                return True

            def message_from_client(self, message):
                if getattr(message, "name", None) == "BOOM":
                    raise RuntimeError("handler failure injected by the harness")

        w.router.register_device(Boom())
        self.conns = []  # dicts: kind, link/handler, policy
        self.with_tty = with_tty
        self.tty = None

    def connect_tcp(self, idx):
        w = self.w
        link = w.new_link("K%d" % idx)
        w.settle()
        c = dict(kind="tcp", link=link, handler=link.server_handler(w), policy=None, idx=idx, ended=False)
        self.conns.append(c)
        return c

    def connect_tty(self):
        from indi.transport.server.tty import ConnectionHandler

        from mc.core import vloop as V

        w = self.w
        src, sink = V.LineSource(), FailingSink()
        in_ctl, out_ctl = V.CtlExecutor(), V.CtlExecutor()
        h = ConnectionHandler(w.router, V.aio_text(src, w.loop, in_ctl), V.aio_text(sink, w.loop, out_ctl))
        task = w.loop.create_task(h.handle())
        c = dict(kind="tty", handler=h, task=task, src=src, sink=sink, in_ctl=in_ctl, out_ctl=out_ctl, policy=None, idx="tty", ended=False)
        self.conns.append(c)
        self.tty = c
        self.pump()
        return c

    def pump(self):
        w = self.w
        for _ in range(10000):
            w.settle()
            prog = False
            t = self.tty
            if t is not None:
                while len(t["out_ctl"]) and not t.get("hold_out"):
                    t["out_ctl"].run(0)
                    prog = True
                if len(t["in_ctl"]) and t["src"].available():
                    t["in_ctl"].run(0)
                    prog = True
            if not prog:
                return
        raise RuntimeError("no quiescence")

    def send(self, c, xml):
        if c["kind"] == "tcp":
            ep = c["link"].server_ep
            if ep.transport.closing or ep.reader.at_eof() or ep.reader.exception() is not None:
                return
            ep.feed(xml.encode("latin1"))
        else:
            if c["task"].done():
                return
            c["src"].supply(xml + "\n")
        self.pump()

    def output(self, c):
        if c["kind"] == "tcp":
            return c["link"].server_ep.written().decode("latin1")
        return c["sink"].getvalue()

    def inject(self, c, fault):
        if c["kind"] == "tcp":
            ep = c["link"].server_ep
            if fault == "eof":
                ep.eof()
            elif fault == "read-error":
                ep.read_error(ConnectionResetError("injected"))
            elif fault == "eof-in-message":
                ep.feed(b'<newTextVector device="DEV0" name="T"><oneText name="A">par')
                self.pump()
                ep.eof()
            elif fault == "junk-then-eof":
                ep.feed(b"\x00\xff<<<junk>&&& <getProperties")
                self.pump()
                ep.eof()
            elif fault == "long-junk-then-eof":
                # more than the receive buffer keeps, starting like a message, without a single '>'
                ep.feed(b'<setNumberVector device="CAM" name="' + b"x" * 3000)
                self.pump()
                ep.eof()
            elif fault == "handler-exception":
                ep.feed(b'<getProperties version="1.7" name="BOOM"/>')
            elif fault == "handler-exception-pipelined":
                ep.feed(b'<getProperties version="1.7" name="BOOM"/><getProperties version="1.7" device="DEV0"/><newTextVector device="DEV0" na')
            elif fault == "read-error-in-message":
                ep.feed(b'<newTextVector device="DEV0" name="T"><oneText name="A">par')
                self.pump()
                ep.read_error(ConnectionResetError("injected"))
            elif fault == "reset-in-message":
                ep.feed(b'<newTextVector device="DEV0" name="T"><oneText name="A">par')
                self.pump()
                ep.transport.lose(ConnectionResetError("peer reset"))
            elif fault == "peer-reset":
                ep.transport.lose(ConnectionResetError("peer reset"))
            elif fault in ("write-error-then-eof", "write-error-then-reset"):
                # phase 1: from now on every write to this peer fails; the connection itself ends later (finish_fault)
                ep.transport.fail_writes = ConnectionResetError("injected write error")
                c["pending_end"] = fault
                self.pump()
                return True
            elif fault == "write-side-closed-then-eof":
                # phase 1: the outgoing side is already closing (is_closing() is true, writes are dropped) while the
                # reading side is still open; the connection ends later
                ep.transport.closing = True
                c["pending_end"] = "write-error-then-eof"
                self.pump()
                return True
        else:
            src = c["src"]
            if fault == "eof":
                src.supply("")
            elif fault == "read-error":
                src.error = OSError("injected read error")
            elif fault == "eof-in-message":
                src.supply('<newTextVector device="DEV0" name="T"><oneText name="A">par')
                self.pump()
                src.supply("")
            elif fault == "junk-then-eof":
                src.supply("\x00\xff<<<junk>&&& <getProperties\n")
                self.pump()
                src.supply("")
            elif fault == "long-junk-then-eof":
                src.supply('<setNumberVector device="CAM" name="' + "x" * 3000 + "\n")
                self.pump()
                src.supply("")
            elif fault == "handler-exception":
                src.supply('<getProperties version="1.7" name="BOOM"/>\n')
            elif fault == "handler-exception-pipelined":
                src.supply('<getProperties version="1.7" name="BOOM"/><getProperties version="1.7" device="DEV0"/><newTextVector device="DEV0" na\n')
            elif fault == "read-error-in-message":
                src.supply('<newTextVector device="DEV0" name="T"><oneText name="A">par')
                self.pump()
                src.error = OSError("injected read error")
            elif fault in ("peer-reset", "reset-in-message", "write-error-then-eof", "write-error-then-reset", "write-side-closed-then-eof"):
                return False
        self.pump()
        c["ended"] = True
        return True

    def finish_fault(self, c):
        """phase 2 of the two-phase faults: the connection whose writes failed now ends"""
        end = c.pop("pending_end", None)
        if end is None:
            return
        ep = c["link"].server_ep
        if end == "write-error-then-eof":
            ep.eof()
        else:
            ep.transport.lose(ConnectionResetError("peer reset"))
        self.pump()
        c["ended"] = True

    def close(self):
        self.w.close()


class FailingSink(io.StringIO):
    """stdout stand-in whose writes can be made to fail (the peer hung up: EPIPE)"""

    fail = None

    def write(self, data):
        if self.fail is not None:
            raise self.fail
        return super().write(data)


SCRIPT = ["connect", "handshake", "enableBLOB", "client-write", "device-traffic"]


def run(transport, fault, victim, step, paused=False, second=None, paused_survivor=None, stalled=None, explicit_never=False):
    """second = (fault2, victim2, step2): another TCP connection ends too; paused: the victim's flow control is
    paused from the start, so device traffic for it is queued behind a pending drain when it ends"""
    from indi.device.values import BLOB
    from indi.transport.server import tcp as server_tcp

    s = Sess(transport == "tty")
    fails = []
    d0 = "transport=%s,fault=%s" % (transport, fault)
    try:
        w = s.w
        dev = w.devices[0]
        injected = False
        vconn = None
        # step 0: connect
        for i in range(3):
            s.connect_tcp(i)
        if transport == "tty":
            s.connect_tty()
        conns = list(s.conns)
        vconn = conns[victim] if transport == "tcp" else s.tty
        vconn2 = conns[second[1]] if second else None
        injected2 = [False]
        if paused and vconn["kind"] == "tcp":
            vconn["link"].server_ep.pause()
        if stalled and vconn["kind"] == "tty":
            # the TTY channel's output is stalled for the whole script (a full pipe): writes to it stay in flight while
            # its input ends; "fail": they then fail (EPIPE) instead of completing
            vconn["hold_out"] = True
        sconn = None
        if paused_survivor is not None:
            # a slow survivor: its flow control is paused for the whole script, so device traffic queues up behind a
            # pending drain while the victim's connection ends; it is resumed afterwards and must have lost nothing
            sconn = conns[paused_survivor]
            if sconn is vconn or sconn is vconn2:
                return [], False
            sconn["link"].server_ep.pause()

        def publish(text, blob):
            """the device publishes an update of its text and of its BLOB property; a connection's trouble must never
            surface in the device's own code"""
            for el, v in ((dev.g.t.a, text), (dev.g.b.a, blob)):
                try:
                    el.value = v
                except Exception as e:  # noqa
                    from mc import lib

                    fails.append(("error-surfaced-in-device", d0 + "," + lib.exc_site(e), "step %d: publishing raised %r" % (step, e)))

        def already_closed(c):
            # a connection the server has closed (or that reads EOF) although nothing was injected on it yet: some
            # other connection's end took it down.  Reported; its own fault is then not applicable any more.
            if c["kind"] != "tcp":
                return False
            ep = c["link"].server_ep
            if ep.transport.closing or ep.reader.at_eof() or c["link"].server_task.done():
                fails.append(("survivor-closed", d0, "step %d: connection %s was closed by the server before anything had happened to it" % (step, c["idx"])))
                return True
            return False

        def maybe(k):
            nonlocal injected
            did = False
            if k == step and not injected:
                injected = True if already_closed(vconn) else (s.inject(vconn, fault) is not False)
                did = True
            if second and k == second[2] and not injected2[0]:
                injected2[0] = True if already_closed(vconn2) else (s.inject(vconn2, second[0]) is not False)
                did = True
            return did

        maybe(0)
        for c in conns:
            s.send(c, '<getProperties version="1.7"/>')
        maybe(1)
        for c in conns:
            pol = POLICY.get(c["idx"], "Also" if c["idx"] == "tty" else None)
            if explicit_never and pol is None:
                pol = "Never"  # asked for explicitly (as the control connection of the library's own client does)
            if pol:
                s.send(c, "<enableBLOB device=\"DEV0\">%s</enableBLOB>" % pol)
                c["policy"] = pol
        maybe(2)
        writer = next(c for c in conns if c is not vconn and c is not vconn2)
        s.send(writer, '<newTextVector device="DEV0" name="T"><oneText name="A">fromclient</oneText></newTextVector>')
        maybe(3)
        publish("traffic1", BLOB(b"blob1", ".x"))
        s.pump()
        maybe(4)
        if not injected or (second and not injected2[0]):
            return [], False
        s.pump()
        s.finish_fault(vconn)
        if vconn2:
            s.finish_fault(vconn2)
        victims = [vconn] + ([vconn2] if vconn2 else [])
        if stalled and vconn["kind"] == "tty":
            # judged while the output is still in flight: the input has ended, the router must already have forgotten it
            for f in check_victim(s, vconn, w.router, server_tcp, {id(vconn): len(s.output(vconn))}, d0, step):
                fails.append((f[0], f[1] + ",output-in-flight", f[2]))
            if stalled == "fail":
                vconn["sink"].fail = BrokenPipeError("peer hung up")
            vconn["hold_out"] = False
            s.pump()
            w.loop.errors.clear()  # a failed write of the ended channel is not judged here
        if sconn is not None:
            sconn["link"].server_ep.resume()
            s.pump()
            out_s = s.output(sconn)
            pol = sconn["policy"]
            # what was routed while it was paused (only traffic after its handshake/enableBLOB steps counts)
            if step <= 3 and pol in (None, "Never", "Also") and out_s.count("traffic1") != 1:
                fails.append(("slow-survivor-lost-traffic", d0, "step %d: the slow surviving connection %s holds %d copies of the update routed while it was paused" % (step, sconn["idx"], out_s.count("traffic1"))))
        wac = {id(c): c["link"].server_ep.transport.writes_after_close for c in victims if c["kind"] == "tcp"}
        # --- after the end of the victim's connection
        marks = {id(c): len(s.output(c)) for c in conns}
        publish("AFTER-TEXT", BLOB(b"AFTER-BLOB", ".y"))
        s.pump()
        router = w.router
        for vconn in victims:
            fails += check_victim(s, vconn, router, server_tcp, marks, d0, step)
            if vconn["kind"] == "tcp":
                more = vconn["link"].server_ep.transport.writes_after_close - wac[id(vconn)]
                if more:
                    fails.append(("delivery-to-ended-connection", d0, "step %d: %d write(s) attempted on the ended connection for traffic routed after it had ended" % (step, more)))
        vconn = victims[0]
        vh = vconn["handler"]
        for c in conns:
            if c in victims:
                continue
            whole = s.output(c)
            pol0 = c["policy"]
            if c is not sconn:
                if pol0 in (None, "Never", "Also") and whole.count("traffic1") != 1:
                    fails.append(("survivor-lost-traffic", d0, "step %d: surviving connection %s holds %d copies of the text update routed during the script" % (step, c["idx"], whole.count("traffic1"))))
                if pol0 in ("Also", "Only") and whole.count("YmxvYjE=") != 1:
                    fails.append(("survivor-lost-traffic", d0 + ",blob", "step %d: surviving connection %s holds %d copies of the BLOB routed during the script" % (step, c["idx"], whole.count("YmxvYjE="))))
            tail = s.output(c)[marks[id(c)] :]
            els, rest = X.split_elements(tail)
            pol = c["policy"]
            want_text = pol in (None, "Never", "Also")
            want_blob = pol in ("Also", "Only")
            has_text = any("AFTER-TEXT" in e for e in els)
            has_blob = any("QUZURVItQkxPQg==" in e for e in els)
            registered = c["handler"] in router.clients
            if not registered:
                fails.append(("survivor-unregistered", d0, "step %d: surviving connection %s was unregistered" % (step, c["idx"])))
            if c["kind"] == "tcp" and (c["link"].server_task.done() or c["link"].server_ep.transport.closing):
                fails.append(("survivor-closed", d0, "step %d: surviving connection %s was closed" % (step, c["idx"])))
            if want_text != has_text or want_blob != has_blob:
                fails.append(("survivor-traffic", d0 + ",policy=%s" % pol, "step %d: survivor %s (policy %s) text=%s blob=%s after the fault" % (step, c["idx"], pol, has_text, has_blob)))
            if rest.strip():
                fails.append(("survivor-garbled", d0, "step %d: survivor %s output has stray characters %r" % (step, c["idx"], rest[:60])))
        # requests of the surviving connections are still served (whatever the ended connection left half-read)
        for c in conns:
            if c in victims or (c["kind"] == "tcp" and c["link"].server_ep.transport.closing):
                continue
            if c["policy"] == "Only":
                continue  # it asked for BLOBs only: definitions are not sent to it
            mark = len(s.output(c))
            s.send(c, '<getProperties version="1.7" device="DEV0" name="T"/>')
            if "<defTextVector" not in s.output(c)[mark:]:
                fails.append(("survivor-request-not-served", d0, "step %d: the getProperties of surviving connection %s after the fault was not answered" % (step, c["idx"])))
        # a peer that reconnects starts from default settings
        n = s.connect_tcp(9)
        s.send(n, '<getProperties version="1.7"/>')
        if "<def" not in s.output(n):
            fails.append(("reconnect-not-served", d0 + ",handshake", "step %d: the handshake of a new connection was not answered" % step))
        mark = len(s.output(n))
        publish("AFTER2-TEXT", BLOB(b"AFTER2-BLOB", ".z"))
        s.pump()
        tail = s.output(n)[mark:]
        if "AFTER2-TEXT" not in tail:
            fails.append(("reconnect-not-served", d0, "step %d: a new connection does not receive device traffic" % step))
        if "QUZURVIyLUJMT0I=" in tail:
            fails.append(("reconnect-inherits-policy", d0, "step %d: a new connection receives BLOBs without asking" % step))
        expect_clients = len(conns) - len(victims) + 1
        if len(router.clients) != expect_clients:
            fails.append(("router-client-count", d0, "step %d: Router.clients has %d entries, expected %d" % (step, len(router.clients), expect_clients)))
        stale = [c for c in router.blob_routing if c not in router.clients]
        if stale:
            fails.append(("router-blob-routing-stale", d0, "step %d: Router.blob_routing keeps %d entries of connections that are no longer registered" % (step, len(stale))))
    finally:
        s.close()
    return fails, True


def check_victim(s, vconn, router, server_tcp, marks, d0, step):
    fails = []
    vh = vconn["handler"]
    if vh in router.clients:
        fails.append(("victim-still-registered", d0, "step %d: the ended connection is still in Router.clients" % step))
    if vh in router.blob_routing:
        fails.append(("victim-blob-settings-kept", d0, "step %d: BLOB settings of the ended connection survive" % step))
    if vconn["kind"] == "tcp":
        if vh in server_tcp.ConnectionHandler.connections:
            fails.append(("victim-in-connection-list", d0, "step %d: the ended connection is still in ConnectionHandler.connections" % step))
        if not vconn["link"].server_ep.transport.closing:
            fails.append(("victim-not-closed", d0, "step %d: the server did not close the ended connection" % step))
        if not vconn["link"].server_task.done():
            fails.append(("victim-handler-running", d0, "step %d: the handler task of the ended connection still runs" % step))
    else:
        if not vconn["task"].done():
            fails.append(("victim-handler-running", d0, "step %d: the TTY handler still runs" % step))
    vtail = s.output(vconn)[marks[id(vconn)] :]
    if "AFTER-TEXT" in vtail or "QUZURVItQkxPQg==" in vtail:
        fails.append(("delivery-to-ended-connection", d0, "step %d: device traffic was still written to the ended connection" % step))
    return fails


def shards(tier, seed):
    sh = []
    for transport in ("tcp", "tty"):
        for fault in FAULTS:
            if transport == "tty" and fault in ("peer-reset", "reset-in-message", "write-error-then-eof", "write-error-then-reset", "write-side-closed-then-eof"):
                continue
            sh.append((tier, transport, fault))
    return sh


def run_shard(shard):
    tier, transport, fault = shard
    res = {"evaluations": 0, "injected": 0, "violations": [], "samples": [], "counters": {}}
    sig = {}
    victims = (0, 1, 2) if transport == "tcp" else (0,)
    cases = []
    for victim in victims:
        for step in range(5):
            cases.append(dict(victim=victim, step=step))
            if transport == "tcp":
                cases.append(dict(victim=victim, step=step, paused=True))
            cases.append(dict(victim=victim, step=step, explicit_never=True))
            if transport == "tty":
                cases.append(dict(victim=victim, step=step, stalled="hold"))
                cases.append(dict(victim=victim, step=step, stalled="fail"))
            for ps in (0, 1, 2):
                if transport != "tcp" or ps != victim:
                    cases.append(dict(victim=victim, step=step, paused_survivor=ps))
            # a second connection ends as well (another fault kind, same or later step)
            f2s = FAULTS if tier == "thorough" else FAULTS[(FAULTS.index(fault) + 1) % len(FAULTS) :][:2]
            for f2 in f2s:
                for v2 in (0, 1, 2):
                    if transport == "tcp" and v2 == victim:
                        continue
                    for step2 in (range(step, 5) if tier == "thorough" else (step, 4)):
                        cases.append(dict(victim=victim, step=step, second=(f2, v2, step2)))
                        if 2 in (victim, v2) and transport == "tcp":
                            # ... with the unset connection having asked for Never explicitly: a single listener is left
                            cases.append(dict(victim=victim, step=step, second=(f2, v2, step2), explicit_never=True))
    for c in cases:
        fails, injected = run(transport, fault, **c)
        res["evaluations"] += 1
        res["injected"] += 1 if injected else 0
        for clause, disc, what in fails:
            extra = (",paused" if c.get("paused") else "") + (",second=%s" % c["second"][0] if c.get("second") else "") + (",slow-survivor" if c.get("paused_survivor") is not None else "") + (",stalled-output" if c.get("stalled") else "") + (",explicit-never" if c.get("explicit_never") else "")
            key = (clause, disc + extra)
            if key in sig:
                sig[key]["count"] += 1
            else:
                sig[key] = {"clause": clause, "disc": disc + extra, "count": 1, "what": "victim %s: %s" % (c["victim"], what), "replay": dict(transport=transport, fault=fault, **c)}
    res["violations"] = list(sig.values())
    if transport == "tcp" and fault == "eof":
        res["samples"].append(dict(transport=transport, fault=fault, victim=1, step=2, script=SCRIPT))
    return res


def finish(tier, seed, m):
    cov = {
        "evaluations": m["evaluations"],
        "distinct_nontrivial": m["injected"],
        "rule": "one evaluation = one session script (3 TCP connections with policies Also/Only/unset, plus the TTY connection) with one fault "
        "injected on one victim after one step index; distinct by (transport, fault, victim, step); non-trivial = the fault was injected",
        "samples": m["samples"][:1],
        "exhaustive": True,
    }
    cov["_vacuity_errors"] = [] if m["injected"] >= 100 else ["fewer than 100 injected faults"]
    return cov


def replay(rep):
    second = tuple(rep["second"]) if rep.get("second") else None
    fails, inj = run(rep["transport"], rep["fault"], rep["victim"], rep["step"], rep.get("paused", False), second, rep.get("paused_survivor"), rep.get("stalled"), rep.get("explicit_never", False))
    extra = (",paused" if rep.get("paused") else "") + (",second=%s" % second[0] if second else "") + (",slow-survivor" if rep.get("paused_survivor") is not None else "") + (",stalled-output" if rep.get("stalled") else "") + (",explicit-never" if rep.get("explicit_never") else "")
    return [{"clause": c, "disc": d + extra, "what": w} for c, d, w in fails]
