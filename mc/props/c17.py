"""C17 - waiting for an event returns the first match or times out, whatever the timing.

Schedule model checking of the real BaseClient.waitforevent on the virtual-clock loop:
all placements of <=2 (thorough 3) events on a half-step grid x value sequences x timeout x
polling x condition kind x event kind x burst mode, plus (E2, bounded) 'time advances while
callbacks are ready' deviations and a second concurrent wait.
"""
import itertools

from mc.core import dfs

LEVEL = "model_checking"
ASSUMPTIONS = [
    "timers live on the integer grid, events on the half-step grid: events never tie with timers (I-9)",
    "I-17: a polling tick that coincides with the completion instant may or may not send",
    "virtual loop reproduces BaseEventLoop._run_once with clock resolution 0",
]
HORIZON = 8.0
GRID = [k + q for k in range(6) for q in (0.25, 0.75)]  # 0.25, 0.75, 1.25 .. 5.75 (events); timers are integers

CONDS = ("expect", "initial", "check")
ALPH = {
    ("value", "expect"): ("X", ("E", "N", "X"), "E"),
    ("value", "initial"): ("X", ("I", "A", "B"), "I"),
    ("value", "check"): ("X", ("M1", "M2", "N"), None),
    ("state", "expect"): ("Idle", ("Busy", "Ok", "Alert"), "Busy"),
    ("state", "initial"): ("Idle", ("Ok", "Busy", "Alert"), "Ok"),
    ("state", "check"): ("Idle", ("Alert", "Busy", "Ok"), None),
    # "elem": a wait filtered on an ELEMENT with the default event type, on a stream that mixes value updates with
    # state-only updates ("s:<state>") of the same property.  Only the element's value updates may complete it - a
    # vector-level event belongs to no element - although a state may equal the expected value ("Busy") and always
    # differs from the initial one.
    # "falsy": the awaited / initial value is a falsy one (a countdown reaching 0): typed numbers as an in-process
    # client holds them
    ("falsy", "expect"): (2, (1, 0, 3), 0),
    ("falsy", "initial"): (0, (1, 0, 3), 0),
    ("falsy", "check"): (2, (0, 1, 3), None),
    ("elem", "expect"): ("X", ("Busy", "N", "s:Busy", "s:Alert"), "Busy"),
    ("elem", "initial"): ("I", ("A", "B", "s:Busy", "s:Alert"), "I"),
    ("elem", "check"): ("X", ("M1", "N", "s:Busy", "s:Alert"), None),
}


def matches(kind, cond, v):
    start, alph, param = ALPH[(kind, cond)]
    if kind == "falsy":
        return v == 0 if cond in ("expect", "check") else v != 0
    if kind == "elem":
        if v.startswith("s:"):
            return False
        kind = "value"
    if cond == "expect":
        return v == param
    if cond == "initial":
        return v != param
    return v.startswith("M") if kind == "value" else v in ("Alert", "Busy")


def polls():
    return [None, (1, 1), (1, 2), (2, 1), (2, 2)]


def timeouts():
    return [None, 0, 1, 2, 3, 4]


def event_sets(kind, cond, nmax, grid):
    start, alph, _ = ALPH[(kind, cond)]
    yield ()
    for n in range(1, nmax + 1):
        for times in itertools.combinations_with_replacement(grid, n):
            for vals in itertools.product(alph, repeat=n):
                prev = start
                state = "Ok"
                ok = True
                for v in vals:
                    if isinstance(v, str) and v.startswith("s:"):
                        # a state-only update must change the state (else it raises no event at all)
                        if v[2:] == state:
                            ok = False
                            break
                        state = v[2:]
                        continue
                    if v == prev:
                        ok = False
                        break
                    prev = v
                    if kind == "elem":
                        state = "Ok"  # value updates carry state Ok
                if ok:
                    yield tuple(zip(times, vals))


# ---------------------------------------------------------------------------------------


def wait_kwargs(kind, cond, T, polling):
    from indi.client import events as CE

    start, alph, param = ALPH[(kind, cond)]
    kw = dict(device="D", vector="V", timeout=T)
    if kind in ("value", "falsy"):
        kw["element"] = "a"
        kw["event_type"] = CE.ValueUpdate
    elif kind == "elem":
        kw["element"] = "a"  # default event_type
    else:
        kw["event_type"] = CE.StateUpdate
    if cond == "check":
        if kind == "falsy":
            kw["check"] = lambda ev: ev.new_value == 0
        elif kind in ("value", "elem"):
            kw["check"] = lambda ev: ev.new_value.startswith("M")
        else:
            kw["check"] = lambda ev: ev.new_state in ("Alert", "Busy")
    else:
        kw[cond] = param
    if polling is None:
        kw["polling_enabled"] = False
    else:
        kw["polling_delay"], kw["polling_interval"] = polling
    return kw


def execute(p, ch=None):
    """p = dict(kind, cond, T, polling, events, burst, second) -> observation dict"""
    import indi.message as M
    from indi.client.client import BaseClient
    from indi.message import def_parts, one_parts

    from mc.core.vloop import VLoop

    loop = VLoop().install()
    obs = {"waits": [], "sent": [], "early": False}
    try:
        class Rec(BaseClient):
            def send_message(self, msg):
                obs["sent"].append((loop.time(), type(msg).__name__, getattr(msg, "device", None), getattr(msg, "name", None)))

        client = Rec()
        kind = p["kind"]
        start = ALPH[(kind, p["cond"])][0]
        st0 = start if kind == "state" else "Ok"
        v0 = start if kind in ("value", "elem", "falsy") else "v"
        if kind == "falsy":
            client.process_message(M.DefNumberVector(device="D", name="V", state=st0 if isinstance(st0, str) else "Ok", perm="rw", children=[def_parts.DefNumber(name="a", format="%d", min=0, max=0, step=0, value=v0)]))
        else:
            client.process_message(M.DefTextVector(device="D", name="V", state=st0, perm="rw", children=[def_parts.DefText(name="a", value=v0)]))
        obs["sent"].clear()
        if p.get("raiser"):
            # a listener registered BEFORE the waits whose callback fails on every event: the waits must not notice

            def failing_listener(ev):
                raise RuntimeError("listener failed")

            client.onevent(device="D", callback=failing_listener)
        base = len(client.callbacks)
        specs = [(p["cond"], p["T"], p["polling"])]
        if p.get("second"):
            specs.append(p["second"])
        for wi, (cond, T, polling) in enumerate(specs):
            rec = {"done": None}
            obs["waits"].append(rec)

            async def runner(rec=rec, cond=cond, T=T, polling=polling):
                try:
                    ev = await client.waitforevent(**wait_kwargs(kind, cond, T, polling))
                    if kind in ("value", "elem", "falsy"):
                        rec["done"] = ("event", getattr(ev, "old_value", "?"), getattr(ev, "new_value", "?"), loop.time())
                    else:
                        rec["done"] = ("event", getattr(ev, "old_state", "?"), getattr(ev, "new_state", "?"), loop.time())
                except Exception as e:  # noqa
                    rec["done"] = ("raised", type(e).__name__, str(e), loop.time())

            loop.create_task(runner())

        def mk(v):
            if kind == "falsy":
                return M.SetNumberVector(device="D", name="V", state="Ok", children=[one_parts.OneNumber(name="a", value=v)])
            if v.startswith("s:"):
                return M.SetTextVector(device="D", name="V", state=v[2:])
            if kind in ("value", "elem"):
                return M.SetTextVector(device="D", name="V", state="Ok", children=[one_parts.OneText(name="a", value=v)])
            return M.SetTextVector(device="D", name="V", state=v)

        def inject(msgs):
            if p["burst"] == "same-callback":
                for m in msgs:
                    client.process_message(m)
            else:
                client.process_message(msgs[0])
                if len(msgs) > 1:
                    loop.call_soon(inject, msgs[1:])

        loop.quiesce()  # the waits have started (timers armed at t=0) before the environment acts
        groups = {}
        for t, v in p["events"]:
            groups.setdefault(t, []).append(mk(v))
        for t in sorted(groups):
            loop.call_at(t, inject, groups[t])

        # run to the horizon
        while True:
            while loop.has_ready():
                if ch is not None:
                    nt = loop.next_timer()
                    if nt is not None and nt <= HORIZON and nt > loop.time():
                        if ch.choose(2, [0, 1], "advance-early") == 1:
                            obs.setdefault("early_at", []).append(loop.time())
                            loop.advance_to(nt)
                            obs["early"] = True
                loop.step()
            nt = loop.next_timer()
            if nt is None or nt > HORIZON:
                break
            loop.advance_to(nt)
        obs["callbacks_left"] = len(client.callbacks) - base
        obs["errors"] = [e.get("message") for e in loop.collect_errors()]
    finally:
        loop.teardown()
    return obs


def expected(kind, cond, T, events):
    """wait_model: (outcome, lock_time) with outcome ('event', old, new) | ('raised',) | ('pending',)"""
    start = ALPH[(kind, cond)][0]
    prev = start
    first = None
    for t, v in events:  # already in delivery order
        if matches(kind, cond, v):
            first = (t, prev, v)
            break
        if not (isinstance(v, str) and v.startswith("s:")):
            prev = v
    if T is not None and T > 0:
        if first is not None and first[0] < T:
            return ("event", first[1], first[2]), first[0]
        return ("raised",), float(T)
    if first is not None:
        return ("event", first[1], first[2]), first[0]
    return ("pending",), None


def judge(p, obs):
    fails = []
    kind = p["kind"]
    specs = [(p["cond"], p["T"], p["polling"])] + ([p["second"]] if p.get("second") else [])
    exp_polls = []
    allowed_polls = []
    all_done = True
    for wi, (cond, T, polling) in enumerate(specs):
        want, tl = expected(kind, cond, T, p["events"])
        got = obs["waits"][wi]["done"]
        d = "cond=%s,kind=%s,burst=%s%s" % (cond, kind, p["burst"] if len({t for t, _ in p["events"]}) < len(p["events"]) else "none", ",early" if obs["early"] else "")
        if want[0] == "pending":
            all_done = False
            if got is not None:
                fails.append(("completed-without-match", d, "expected to stay pending, got %r" % (got,)))
        elif got is None:
            fails.append(("neither", d, "expected %r at %s, wait still pending at the horizon" % (want, tl)))
        elif T is not None and T > 0 and float(T) in obs.get("early_at", ()):
            # the loop lagged exactly while the timeout timer was due: later events were processed in the same
            # iteration as the timer, i.e. they tie with the timeout instant (excluded by the property, I-9)
            pass
        elif want[0] == "raised":
            if got[0] != "raised":
                fails.append(("no-timeout", d, "expected timeout at %s, got %r" % (tl, got)))
            elif not obs["early"] and got[3] != tl:
                fails.append(("timeout-instant", d, "timeout raised at %s, expected %s" % (got[3], tl)))
        else:
            if got[0] != "event":
                fails.append(("timeout-despite-match", d, "expected %r at %s, got %r" % (want, tl, got)))
            elif (got[1], got[2]) != (want[1], want[2]):
                fails.append(("not-first-match", d, "expected first match %r, got %r" % (want, got)))
            elif not obs["early"] and got[3] != tl:
                fails.append(("completion-instant", d, "completed at %s, first match at %s" % (got[3], tl)))
        if polling is not None:
            delay, interval = polling
            t = float(delay)
            while t <= HORIZON:
                if tl is None or t < tl:
                    exp_polls.append(t)
                    allowed_polls.append(t)
                elif t == tl:
                    allowed_polls.append(t)
                t += interval
    got_polls = sorted(t for t, name, dev, nm in obs["sent"] if name == "GetProperties")
    other = [s for s in obs["sent"] if s[1] != "GetProperties"]
    d = "cond=%s,kind=%s%s" % (p["cond"], kind, ",early" if obs["early"] else "")
    if other:
        fails.append(("unexpected-send", d, "sent %r" % (other,)))
    if not obs["early"]:
        need = sorted(exp_polls)
        allow = sorted(allowed_polls)
        gp = list(got_polls)
        ok = True
        for t in need:
            if t in gp:
                gp.remove(t)
            else:
                ok = False
        al = list(allow)
        for t in need:
            al.remove(t)
        for t in gp:
            if t in al:
                al.remove(t)
            else:
                ok = False
        if not ok:
            late = any(t > max([x for x in allow] or [0]) for t in got_polls) if got_polls else False
            fails.append(("polling", d + (",after-completion" if late else ""), "getProperties at %r, required %r, allowed %r" % (got_polls, need, allow)))
    for t, name, dev, nm in obs["sent"]:
        if name == "GetProperties" and (dev, nm) != ("D", "V"):
            fails.append(("polling-target", d, "getProperties for %r/%r" % (dev, nm)))
    if all_done and obs["callbacks_left"] != 0:
        fails.append(("callback-leak", d, "%d callbacks left registered" % obs["callbacks_left"]))
    if obs["errors"]:
        fails.append(("loop-error", d, repr(obs["errors"])))
    return fails


# ---------------------------------------------------------------------------------------


def shards(tier, seed):
    sh = []
    for kind in ("value", "state", "elem", "falsy"):
        for cond in CONDS:
            for T in timeouts():
                if kind in ("elem", "falsy") and T in (0, 1, 3):
                    continue
                sh.append((tier, "grid", kind, cond, T))
    for kind in ("value", "state", "elem", "falsy"):
        for cond in CONDS:
            if kind not in ("elem", "falsy"):
                sh.append((tier, "dev", kind, cond))
            sh.append((tier, "two", kind, cond))
    return sh


def run_shard(shard):
    tier, what, kind, cond = shard[:4]
    res = {"states": 0, "transitions": 0, "schedules": 0, "violations": [], "samples": [], "counters": {}}
    sig = {}
    outcomes = res["counters"]

    def record(p, fails, choices=None):
        for clause, disc, whatmsg in fails:
            key = (clause, disc)
            if key in sig:
                sig[key]["count"] += 1
            else:
                sig[key] = {"clause": clause, "disc": disc, "what": "%r: %s" % (p, whatmsg), "count": 1, "replay": {"p": p, "choices": choices}}

    def note(obs):
        for w in obs["waits"]:
            k = "outcome:" + (w["done"][0] if w["done"] else "pending")
            outcomes[k] = outcomes.get(k, 0) + 1

    if what == "grid":
        T = shard[4]
        nmax = 2 if tier == "quick" else 3
        grid = GRID if tier == "thorough" or True else GRID
        if tier == "thorough":
            grid3 = GRID
        for evs in event_sets(kind, cond, nmax, GRID):
            tied = len({t for t, _ in evs}) < len(evs)
            for polling in polls():
                for burst in ("same-callback", "separate-iterations") if tied else ("same-callback",):
                    p = dict(kind=kind, cond=cond, T=T, polling=polling, events=evs, burst=burst)
                    obs = execute(p)
                    res["schedules"] += 1
                    res["transitions"] += 1 + len(evs)
                    note(obs)
                    f = judge(p, obs)
                    if f:
                        record(p, f)
        if T == 2 and cond == "expect" and kind == "value":
            res["samples"].append({"schedule": dict(kind=kind, cond=cond, T=2, polling=(1, 1), events=((0.25, "N"), (1.75, "E")), burst="same-callback"), "expected": "returns (N -> E) at 1.75; getProperties at 1.0 only"})
    elif what == "dev":
        # deviation-bounded: time advancing while callbacks are ready
        bound = 2 if tier == "quick" else 3
        nmax = 2
        for evs in event_sets(kind, cond, nmax, GRID[:6] if tier == "quick" else GRID[:8]):
            for T in (None, 2, 3):
                for polling in (None, (1, 1), (2, 1)):
                    p = dict(kind=kind, cond=cond, T=T, polling=polling, events=evs, burst="same-callback")
                    for ch, obs in dfs.explore(lambda c: execute(p, c), bound):
                        res["schedules"] += 1
                        res["transitions"] += len(ch.trace) + 1
                        note(obs)
                        f = judge(p, obs)
                        if f:
                            record(p, f, ch.trace)
    else:
        # two concurrent waits on the same client
        nmax = 2
        for evs in event_sets(kind, cond, nmax, GRID[:6] if tier == "quick" else GRID[:9]):
            for T in (None, 2):
                for cond2 in CONDS:
                    if ALPH[(kind, cond2)][1] != ALPH[(kind, cond)][1] and cond2 != cond:
                        # the second wait must understand the same value alphabet: use predicates only
                        pass
                    for T2, pol2, raiser in ((1, None, False), (1, (1, 2), False), (3, None, False), (3, (1, 2), False), (3, None, True), (1, (1, 2), True)):
                        if True:
                            p = dict(kind=kind, cond=cond, T=T, polling=(1, 1), events=evs, burst="same-callback", second=(cond, T2, pol2), raiser=raiser)
                            obs = execute(p)
                            res["schedules"] += 1
                            res["transitions"] += 1 + len(evs)
                            note(obs)
                            f = judge(p, obs)
                            if f:
                                record(p, f)
                    break
    res["states"] = res["schedules"]
    res["violations"] = list(sig.values())
    return res


def finish(tier, seed, m):
    outs = {k: v for k, v in m["counters"].items() if k.startswith("outcome:")}
    cov = {
        "states": m["states"],
        "transitions": m["transitions"],
        "traces_validated_against_impl": m["schedules"],
        "schedules": m["schedules"],
        "distinct_outcomes": outs,
        "samples": m["samples"][:3],
        "exhaustive": True,
        "explanation": "states = complete schedules executed on the real waitforevent under the virtual loop (each schedule is one "
        "terminal state of the choice tree); transitions = environment events injected + choice points taken; every schedule is judged by wait_model",
    }
    errs = []
    for need in ("outcome:event", "outcome:raised", "outcome:pending"):
        if outs.get(need, 0) < 10:
            errs.append("outcome %s observed fewer than 10 times" % need)
    cov["_vacuity_errors"] = errs
    return cov


def _t(x):
    if isinstance(x, list):
        return tuple(_t(i) for i in x)
    return x


def replay(rep):
    p = dict(rep["p"])
    p["events"] = _t(p["events"])
    p["polling"] = _t(p["polling"]) if p["polling"] else None
    if p.get("second"):
        s = p["second"]
        p["second"] = (s[0], s[1], _t(s[2]) if s[2] else None)
    ch = dfs.Chooser(rep["choices"]) if rep.get("choices") is not None else None
    obs = execute(p, ch)
    return [{"clause": c, "disc": d, "what": w} for c, d, w in judge(p, obs)]
