"""C13 - the parser accepts only protocol-conformant messages.

Bounded-exhaustive perturbation of the message grammar: every constrained field of every
kind replaced by every member of a perturbation alphabet; required attributes dropped;
children of every other part kind / unknown / message tags; part tags, unknown tags and
case variants at top level; pairs of perturbations in the thorough tier.
Oracle: from_string raises, or the result (public attributes only) is conformant with
the vocabularies of the INDI DTD hard-coded here.
"""
import itertools
import re

from mc.gen import messages as G

LEVEL = "exploration"
ASSUMPTIONS = [
    "vocabularies and required-attribute table are hard-coded from the INDI 1.7 DTD (mc.gen.messages)",
    "absent number text is not judged (I-3); min/max/step/format attribute syntax is not judged",
    "state is #IMPLIED on set*Vector in the DTD: a parsed set message without a state is conformant (the library itself always requires one)",
]

ABSENT = object()
# perturbation alphabet for vocabulary / number slots
PERT = [
    ("absent", ABSENT),
    ("empty", ""),
    ("lower", None),  # filled per slot
    ("upper", None),
    ("foreign-vocab", None),
    ("arbitrary", "Purple"),
    ("None-string", "None"),
    ("module-name", "indi.message.const"),
    ("dunder", "__main__"),
    ("classrepr", "<class 'indi.message.const.State'>"),
    ("qualname", "State"),
    ("inner-space", "O k"),
    ("number", "1"),
    ("doc", "__doc__"),
]
NUM_PERT = [
    ("absent", ABSENT),
    ("arbitrary", "abc"),
    ("exp", "1e5"),
    ("hex", "0x10"),
    ("double-sign", "--1"),
    ("plus", "+1"),
    ("two-dots", "1.2.3"),
    ("comma", "1,5"),
    ("sexa-3colon", "1:2:3:4"),
    ("sexa-1digit", "1:5"),
    ("colon-only", ":"),
    ("trailing-colon", "1:"),
    ("nan", "nan"),
    ("inf", "inf"),
    ("inner-space", "1 5 x"),
    ("None-string", "None"),
    ("module-name", "indi.message.const"),
]

NUM_OK = re.compile(r"^[+-]?(\d+\.?\d*|\.\d+)([eE][+-]?\d+)?$|^[+-]?\d+([:; ]+\d+(\.\d*)?){1,2}$")


def vocab_perts(vocab):
    others = {G.STATES: G.SWITCH, G.SWITCH: G.STATES, G.PERMS: G.RULES, G.RULES: G.BLOBEN, G.BLOBEN: G.PERMS}
    for name, val in PERT:
        if name == "lower":
            val = vocab[0].lower() if vocab[0].lower() not in vocab else vocab[0].swapcase()
        elif name == "upper":
            val = vocab[0].upper()
        elif name == "foreign-vocab":
            val = others[vocab][0]
        yield name, val


def field_name(desc, path):
    tag, attrs, text, children = desc
    if path[0] == "a":
        return attrs[path[1]][0]
    if path[0] == "t":
        return "text"
    ct, ca, ctext = children[path[1]]
    if path[0] == "ca":
        return ct + "." + ca[path[2]][0]
    return ct + ".text"


def drop_slot(desc, path):
    tag, attrs, text, children = desc
    if path[0] == "a":
        return (tag, attrs[: path[1]] + attrs[path[1] + 1 :], text, children)
    if path[0] == "t":
        return (tag, attrs, None, children)
    ch = list(children)
    ct, ca, ctext = ch[path[1]]
    if path[0] == "ca":
        ch[path[1]] = (ct, ca[: path[2]] + ca[path[2] + 1 :], ctext)
    else:
        ch[path[1]] = (ct, ca, None)
    return (tag, attrs, text, tuple(ch))


def apply(desc, path, val):
    return drop_slot(desc, path) if val is ABSENT else G.with_slot(desc, path, val)


def constrained_slots(desc):
    for path, kind in G.slots(desc):
        if isinstance(kind, tuple):
            yield path, kind, list(vocab_perts(kind))
        elif kind == G.K_NUM and path[0] in ("t", "ct"):
            yield path, kind, NUM_PERT


def bases(tag):
    k = G.KINDS[tag]
    optn = tuple(n for n, _ in k.opt)
    if k.child:
        pon = tuple(n for n, _ in G.PARTS[k.child].opt)
        return [G.skeleton(tag, optn, 2, [pon, ()]), G.skeleton(tag, (), 1, [()])]
    return [G.skeleton(tag, optn, 0), G.skeleton(tag, (), 0)]


def part_skel(ptag, i=0):
    p = G.PARTS[ptag]
    ca = tuple((n, "e%d" % i if n == "name" else G.default_of(kd)) for n, kd in p.req)
    return (ptag, ca, G.default_of(p.text) if p.text else None)


def cases(tag, tier):
    """yield (label, text)"""
    sp0 = G.Spelling()
    sp1 = G.Spelling(1, 1, "'", 1, 2, 0, 0, 1, 1)
    if tag == "@toplevel":
        for ptag in G.PARTS:
            d = part_skel(ptag)
            slots = [(("a", i), None) for i in range(len(d[1]))]
            yield "toplevel-part:" + ptag, G.serialise((d[0], d[1], d[2], ()), sp0)
            # with a perturbed value too
            p = G.PARTS[ptag]
            if isinstance(p.text, tuple):
                for name, val in vocab_perts(p.text):
                    if val is ABSENT:
                        val = None
                    yield "toplevel-part:%s,value=%s" % (ptag, name), G.serialise((d[0], d[1], val, ()), sp0)
        for t in ("foo", "GetProperties", "getproperties", "SETTEXTVECTOR", "indiMessage", "defVector", "setVector", "newVector", "newLightVector", "IndiMessage", "object"):
            yield "toplevel-unknown:" + t, '<%s device="abc" name="de" state="Ok" version="1.7" perm="rw" rule="AnyOfMany" uid="1">Also</%s>' % (t, t)
        return
    k = G.KINDS[tag]
    # conformant controls: they must not trip the oracle (they exercise problems() on accepted input)
    for d in G.structures(tag, 2, full_child_opts=False):
        yield "control", G.serialise(d, sp0)
    for b in bases(tag):
        for path, kind in G.slots(b):
            if isinstance(kind, tuple) or kind == G.K_NUM:
                for v in G.domain(kind):
                    yield "control", G.serialise(G.with_slot(b, path, v), sp1)
    for bi, b in enumerate(bases(tag)):
        cs = list(constrained_slots(b))
        for path, kind, perts in cs:
            for name, val in perts:
                d = apply(b, path, val)
                for sp in (sp0, sp1) if bi == 0 else (sp0,):
                    yield "field=%s,value=%s" % (field_name(b, path), name), G.serialise(d, sp)
        # required attributes dropped (message and children)
        reqn = {n for n, _ in k.req}
        for i, (n, v) in enumerate(b[1]):
            if n in reqn:
                yield "required-dropped:" + n, G.serialise(drop_slot(b, ("a", i)), sp0)
        if k.child:
            preq = {n for n, _ in G.PARTS[k.child].req}
            for ci, (ct, ca, ctext) in enumerate(b[3]):
                for i, (n, v) in enumerate(ca):
                    if n in preq:
                        yield "required-dropped:%s.%s" % (ct, n), G.serialise(drop_slot(b, ("ca", ci, i)), sp0)
        # children of every other kind
        if k.child:
            for other in list(G.PARTS) + ["@unknown", "@message"]:
                if other == k.child:
                    continue
                if other == "@unknown":
                    oc = ("oneFoo", (("name", "e9"),), "Ok")
                elif other == "@message":
                    oc = ("getProperties", (("version", "1.7"),), None)
                else:
                    oc = part_skel(other, 9)
                for pos in range(len(b[3]) + 1):
                    ch = b[3][:pos] + (oc,) + b[3][pos:]
                    yield "child-kind=%s-in-%s" % (other, tag), G.serialise((b[0], b[1], b[2], ch), sp0)
                yield "child-kind=%s-in-%s" % (other, tag), G.serialise((b[0], b[1], b[2], (oc,)), sp0)
        if True:  # pairs of perturbations (both tiers)
            for (p1, k1, pe1), (p2, k2, pe2) in itertools.combinations(cs, 2):
                for (n1, v1), (n2, v2) in itertools.product(pe1, pe2):
                    if v1 is ABSENT and v2 is ABSENT and p1[0] == p2[0] == "a":
                        # dropping two attrs: indices shift; drop the later one first
                        d = drop_slot(drop_slot(b, p2), p1)
                    else:
                        # apply later path first so that attribute indices stay valid
                        d = apply(apply(b, p2, v2), p1, v1) if v2 is ABSENT else apply(apply(b, p1, v1), p2, v2) if v1 is not ABSENT else apply(apply(b, p2, v2), p1, v1)
                    for sp in (sp0, sp1):
                        yield "pair:%s=%s+%s=%s" % (field_name(b, p1), n1, field_name(b, p2), n2), G.serialise(d, sp)


def ctor_params(cls):
    """names of the keyword parameters of a message class's constructors along its MRO: what an XML attribute of the
    same name would be bound to, since the parser hands every attribute to the constructor as a keyword"""
    import inspect

    names = set()
    for c in cls.__mro__:
        init = c.__dict__.get("__init__")
        if init is None:
            continue
        for n, prm in inspect.signature(init).parameters.items():
            if n != "self" and prm.kind in (prm.POSITIONAL_OR_KEYWORD, prm.KEYWORD_ONLY):
                names.add(n)
    return names


def extra_attr_cases(tag):
    """every single perturbation of a constrained field, with the element that carries the field given an additional
    XML attribute named like a constructor parameter that is no protocol attribute (or like an internal flag)"""
    from mc import lib

    sp0 = G.Spelling()
    k = G.KINDS[tag]
    fixed = {"value", "children", "from_device", "from_client"}
    mextra = sorted((ctor_params(lib.MSG_CLASSES[tag]) | fixed) - {n for n, _ in k.req + k.opt})
    pextra = []
    if k.child:
        p = G.PARTS[k.child]
        pextra = sorted((ctor_params(lib.PART_CLASSES[k.child]) | fixed) - {n for n, _ in p.req + p.opt})
    for b in bases(tag)[:1]:
        for path, kind, perts in constrained_slots(b):
            on_child = path[0] in ("ca", "ct")
            for name, val in perts:
                d = apply(b, path, val)
                for xn in pextra if on_child else mextra:
                    for xv in ("", "0", "junk"):
                        if on_child:
                            ch = list(d[3])
                            ct, ca, ctext = ch[path[1]]
                            ch[path[1]] = (ct, ca + ((xn, xv),), ctext)
                            dd = (d[0], d[1], d[2], tuple(ch))
                        else:
                            dd = (d[0], d[1] + ((xn, xv),), d[2], d[3])
                        yield "field=%s,value=%s,extra-attr=%s" % (field_name(b, path), name, xn), G.serialise(dd, sp0)


def all_structure_cases(tag):
    """thorough: every single perturbation on EVERY structure of the kind (all optional-attribute subsets, 0..2 children)"""
    sp0 = G.Spelling()
    for b in G.structures(tag, 2, full_child_opts=True):
        for path, kind, perts in constrained_slots(b):
            for name, val in perts:
                yield "field=%s,value=%s" % (field_name(b, path), name), G.serialise(apply(b, path, val), sp0)


def problems(obj):
    """Non-conformances of a parsed result, read through public attributes."""
    out = []
    n = type(obj).__name__
    tag = n[:1].lower() + n[1:]
    k = G.KINDS.get(tag)

    def vocab(field, val, voc):
        if val not in voc:
            out.append((field, "absent" if val is None else classify(val)))

    if k is None:
        if tag == "oneLight":
            vocab("toplevel-oneLight.value", getattr(obj, "value", None), G.STATES)
            if getattr(obj, "name", None) is None:
                out.append(("toplevel-oneLight.name", "absent"))
            return out
        out.append(("kind", "unknown:" + tag))
        return out
    kinds = dict(k.req + k.opt)
    # the INDI DTD declares state #IMPLIED on set*Vector ("no change if absent"): the library happens to require it,
    # but a message that carries none is conformant.  If present it must be a property state.
    implied = {"state"} if tag.startswith("set") else set()
    for name, _ in k.req:
        if getattr(obj, name, None) is None and name not in implied:
            out.append(("required:" + name, "absent"))
    for name, kd in kinds.items():
        if isinstance(kd, tuple):
            v = getattr(obj, name, None)
            if v is None and (name not in dict(k.req) or name in implied):
                continue
            vocab(name, v, kd)
    if isinstance(k.text, tuple):
        vocab("text", getattr(obj, "value", None), k.text)
    if k.child:
        p = G.PARTS[k.child]
        for ch in getattr(obj, "children", None) or ():
            cn = type(ch).__name__
            ctag = cn[:1].lower() + cn[1:]
            if ctag != k.child:
                out.append(("child-kind", ctag + "-in-" + tag))
                continue
            for name, _ in p.req:
                if getattr(ch, name, None) is None:
                    out.append(("required:%s.%s" % (ctag, name), "absent"))
            v = getattr(ch, "value", None)
            if isinstance(p.text, tuple):
                vocab(ctag + ".text", v, p.text)
            elif p.text == G.K_NUM and v is not None:
                if not NUM_OK.match(str(v)):
                    out.append((ctag + ".text", "not-a-number:" + classify(str(v))))
    return out


def classify(v):
    if v == "":
        return "empty"
    if v == "None":
        return "None-string"
    if v.startswith("indi."):
        return "module-name"
    if v.startswith("__"):
        return "dunder"
    if v.startswith("<"):
        return "classrepr"
    return "other"


def shards(tier, seed):
    return [(tier, tag) for tag in G.ALL_TAGS] + [(tier, "@toplevel")]


def run_shard(shard):
    import indi.message as M

    tier, tag = shard
    res = {"evaluations": 0, "accepted": 0, "rejected": 0, "distinct": 0, "violations": [], "samples": [], "counters": {}}
    sigs = {}
    seen = set()
    import itertools as _it

    gen = cases(tag, tier)
    if tag != "@toplevel":
        gen = _it.chain(gen, extra_attr_cases(tag))
    if tier == "thorough" and tag != "@toplevel":
        gen = _it.chain(gen, all_structure_cases(tag))
    for label, text in gen:
        if text in seen:
            continue
        seen.add(text)
        res["evaluations"] += 1
        res["distinct"] += 1
        try:
            obj = M.IndiMessage.from_string(text)
        except Exception:
            res["rejected"] += 1
            continue
        res["accepted"] += 1
        probs = problems(obj)
        if label.startswith("required-dropped:") and not (tag.startswith("set") and label == "required-dropped:state"):
            # the INPUT lacks an attribute the DTD requires: whatever default the constructor fills in, accepting it is
            # accepting a non-conformant element (a default hides the absence from the object, not from the protocol)
            if not any(f.startswith("required:") for f, _ in probs):
                probs = probs + [("required:" + label.split(":", 1)[1], "absent-in-input")]
        for field, why in probs:
            key = ("nonconformant-accepted", "field=%s,value=%s" % (field, why))
            if key in sigs:
                sigs[key]["count"] += 1
                continue
            v = {"clause": key[0], "disc": key[1], "what": "accepted %r (%s)" % (text, label), "replay": {"text": text, "label": label}, "count": 1}
            sigs[key] = v
            res["violations"].append(v)
        if len(res["samples"]) < 2:
            res["samples"].append({"label": label, "text": text, "accepted": True})
    return res


def finish(tier, seed, m):
    cov = {
        "evaluations": m["evaluations"],
        "distinct_nontrivial": m["distinct"],
        "rule": "distinct serialised elements (deduplicated per shard), each a conformant base message with one "
        "(thorough: also two) constrained fields perturbed / a required attribute dropped / a foreign child / a foreign "
        "top-level tag; every one is non-trivial (it is non-conformant or differs from the conformant base in a constrained field)",
        "accepted_by_parser": m["accepted"],
        "rejected_by_parser": m["rejected"],
        "samples": m["samples"][:6],
        "exhaustive": True,
    }
    errs = []
    if m["rejected"] < 100:
        errs.append("parser rejected fewer than 100 perturbed inputs: harness probably not perturbing")
    if m["accepted"] < 200:
        errs.append("parser accepted fewer than 200 inputs: oracle never exercised")
    cov["_vacuity_errors"] = errs
    return cov


def replay(rep):
    import indi.message as M

    try:
        obj = M.IndiMessage.from_string(rep["text"])
    except Exception:
        return []
    return [{"clause": "nonconformant-accepted", "disc": "field=%s,value=%s" % (f, w), "what": rep["text"]} for f, w in problems(obj)]
