"""C09 - switch properties always satisfy their rule.

Explicit-state model checking: for each rule x n in 1..4 (thorough 5) x every initial
configuration, the COMPLETE reachable state graph of the real SwitchVector under the
operation alphabet {client write On/Off to one switch, client write naming 2..n switches
in every order (n<=3), el.value=, el.bool_value=, selected_value=, selected_values=} is
enumerated to fixpoint; the rule oracle is evaluated on every transition and on the children
of every setSwitchVector published during it.  For n <= 3 the graphs are also enumerated with
driver handlers on the switches: a Change handler that republishes, Write handlers that defer
the write (prevent_default) on all / the first / the last switch, Change and Write handlers
that raise on the first / last switch, and a client whose connection fails while an update is
written: an operation cut short at any point must leave the rule intact, in the state and in
everything published.  selected_value(s) must report exactly the switches that are On.
"""
import itertools

LEVEL = "model_checking"
ASSUMPTIONS = [
    "one switch vector per device; other vectors cannot influence it (apply_rule only reads its own elements)",
    "a state is the tuple of switch values (complete vars() of elements: _value, _enabled) ; states are re-entered by replaying the BFS-tree path on a fresh driver",
]
RULES = ("OneOfMany", "AtMostOne", "AnyOfMany")
# driver handler configurations on the switches (the property quantifies over "whatever sequence of client writes and
# assignments": what the driver's own handlers do with them - republish, defer, fail - is part of that sequence)
MODES = (None, "republish", "defer-all", "defer-s0", "defer-last", "raise-change-s0", "raise-change-last", "raise-write-s0", "raise-write-last", "raise-read-s0", "raise-read-last", "client-raises", "hide")


class HandlerFault(Exception):
    """raised by the harness's own handlers (a driver handler that fails while talking to its hardware)"""


def shards(tier, seed):
    nmax = 4 if tier == "quick" else 5
    sh = []
    for rule in RULES:
        for n in range(1, nmax + 1):
            for init in itertools.product((False, True), repeat=n):
                sh.append((tier, rule, n, init, None))
                if n <= 3:
                    for mode in MODES[1:]:
                        sh.append((tier, rule, n, init, mode))
    return sh


class Sys:
    def __init__(self, rule, init, mode=None):
        from indi.routing import Client, Router

        from mc.gen import drivers as D

        self.router = Router()
        handlers = None
        if mode is True:
            mode = "republish"  # replay files written before the handler modes existed
        self.mode = mode or None
        self.faulted = False  # a handler of the harness raised during the current operation (the driver may swallow it)
        self.in_op = False
        outer_ = self
        n_ = len(init)
        # elements whose client writes are deferred by a Write handler (event.prevent_default) and never confirmed
        self.deferred = set(range(n_)) if mode == "defer-all" else ({0} if mode == "defer-s0" else ({n_ - 1} if mode == "defer-last" else set()))
        if mode and mode.startswith("defer"):
            from indi.device.events import Write, on

            deferred = self.deferred

            def handlers(defs):
                els = list(defs["g"].vectors["sw"].elements.values())

                def defer(self, event):
                    event.prevent_default = True

                return {"defer_write": on([els[i] for i in sorted(deferred)], Write)(defer)}

        elif mode and mode.startswith("raise-"):
            from indi.device.events import Change, Read, Write, on

            which = 0 if mode.endswith("s0") else n_ - 1
            evt = Change if "change" in mode else (Read if "read" in mode else Write)

            def handlers(defs):
                els = list(defs["g"].vectors["sw"].elements.values())

                def fail(self, event):
                    if not outer_.in_op:
                        return  # (the harness reading the state afterwards is not part of the operation)
                    outer_.faulted = True
                    raise HandlerFault("hardware did not answer")

                return {"failing_handler": on(els[which], evt)(fail)}

        elif mode == "republish":
            # a synchronous Change handler on every switch that republishes the property (a driver reporting
            # "busy" while it reconfigures the hardware): whatever it publishes must satisfy the rule too
            from indi.device.events import Change, on

            def handlers(defs):
                els = list(defs["g"].vectors["sw"].elements.values())

                def busy(self, event):
                    event.vector.state_ = "Busy"

                return {"busy_on_change": on(els, Change)(busy)}

        cls, defs = D.build_class(D.switch_spec(rule, init), handlers=handlers)
        self.dev = cls(router=self.router)
        self.published = []
        outer = self

        class Rec(Client):
            def message_from_device(self, message):
                outer.published.append(message)
                if outer.mode == "client-raises" and outer.armed:
                    outer.faulted = True
                    raise HandlerFault("connection lost while the update was being written")

        self.armed = False

        self.client = Rec()
        self.router.register_client(self.client)
        self.vec = self.dev.g.sw
        self.n = len(init)

    def state(self):
        els = [self.vec._elements["s%d" % i] for i in range(self.n)]
        return tuple((e._value, e._enabled) for e in els) + (self.vec._state, self.vec._enabled)

    _KNOWN = {
        "vec": ("_elements", "_elements_by_name", "_device", "_group", "_definition", "_state", "_enabled"),
        "el": ("_vector", "_definition", "_value", "_enabled", "_device"),
        "dev": ("_groups", "_vectors", "_router", "_snooping_client", "_name"),
    }

    def hidden(self):
        """whatever ELSE the vector, its elements and the driver carry in their vars() - trackers, caches, remembered
        requests: state that is not switch state but may steer later operations, so configurations that differ in it
        are different states of the graph (DESIGN: the canonical state is the complete vars() snapshot)"""

        def flat(v, depth=0):
            if v is None or isinstance(v, (bool, int, float, str, bytes)):
                return v
            if isinstance(v, (list, tuple)):
                return tuple(flat(x, depth + 1) for x in v)
            if isinstance(v, dict):
                return tuple(sorted((repr(flat(k, depth + 1)), flat(x, depth + 1)) for k, x in v.items()))
            if isinstance(v, (set, frozenset)):
                return tuple(sorted(repr(flat(x, depth + 1)) for x in v))
            if hasattr(v, "to_string") and callable(v.to_string):  # a protocol message
                try:
                    return ("msg", v.to_string())
                except Exception:  # noqa
                    return ("msg", type(v).__name__)
            if any(v is e for e in self.vec._elements.values()):
                return ("element", v.name)
            return type(v).__name__

        out = []
        for label, obj, known in [("vec", self.vec, self._KNOWN["vec"]), ("dev", self.dev, self._KNOWN["dev"])] + [("el:%s" % k, e, self._KNOWN["el"]) for k, e in self.vec._elements.items()]:
            for k, v in sorted(vars(obj).items()):
                if k not in known and not callable(v):
                    out.append((label, k, flat(v)))
        return tuple(out)

    def on(self):
        return tuple(self.vec._elements["s%d" % i]._value == "On" for i in range(self.n))

    def visible(self):
        return tuple(bool(self.vec._elements["s%d" % i]._enabled) for i in range(self.n))

    def apply_quiet(self, op):
        """path replay: an operation that was cut short by a failing handler when the state was first reached is cut
        short in the same way again"""
        try:
            return self.apply(op)
        except HandlerFault:
            return None

    def apply(self, op):
        import indi.message as M
        from indi.message import one_parts

        self.published.clear()
        self.faulted = False
        self.armed = True
        self.in_op = True
        try:
            return self._apply(op)
        finally:
            self.in_op = False

    def _apply(self, op):
        import indi.message as M
        from indi.message import one_parts

        kind = op[0]
        if kind == "client":
            ch = [one_parts.OneSwitch(name="S%d" % i, value="On" if v else "Off") for i, v in op[1]]
            msg = M.NewSwitchVector(device="DEV", name="SW", children=ch)
            self.router.process_message(msg, sender=self.client)
        elif kind == "value-none":
            self.vec._elements["s%d" % op[1]].value = None
        elif kind == "value":
            self.vec._elements["s%d" % op[1]].value = "On" if op[2] else "Off"
        elif kind == "bool":
            self.vec._elements["s%d" % op[1]].bool_value = op[2]
        elif kind == "selected_value":
            self.vec.selected_value = "S%d" % op[1]
        elif kind == "selected_values":
            self.vec.selected_values = ["S%d" % i for i in op[1]]
        elif kind == "el-enabled":
            self.vec._elements["s%d" % op[1]].enabled = op[2]
        return [tuple((c.name, c.value) for c in m.children) for m in self.published if type(m).__name__ == "SetSwitchVector"]


def ops(n, tier, mode=None):
    if mode == "hide":
        # the driver hides / shows single switches (element.enabled): not an assignment, but every later write must
        # still leave the rule intact over ALL switches, hidden or not
        for i in range(n):
            yield ("el-enabled", i, False)
            yield ("el-enabled", i, True)
    for i in range(n):
        for v in (True, False):
            yield ("client", ((i, v),))
            yield ("value", i, v)
            yield ("bool", i, v)
        yield ("selected_value", i)
        yield ("value-none", i)  # not a switch state: it may be refused, it must not break the rule
    for r in range(0, n + 1):
        for sub in itertools.combinations(range(n), r):
            yield ("selected_values", sub)
    kmax = min(n, 3)
    for k in range(2, kmax + 1):
        for idxs in itertools.permutations(range(n), k):
            for vals in itertools.product((True, False), repeat=k):
                yield ("client", tuple(zip(idxs, vals)))


def oracle(rule, pre, op, post, published, exc, deferred=frozenset(), faulted=False, visible=None):
    """returns list of (clause, disc, what).  deferred: indices whose client writes a Write handler defers
    (event.prevent_default): such a switch is not expected to change, everything else is judged as usual"""
    fails = []
    kind = op[0]
    fault = isinstance(exc, HandlerFault) or faulted
    if exc is not None and kind != "value-none" and not fault:
        from mc import lib

        return [("raises", "op=%s,%s" % (kind, lib.exc_site(exc)), repr(exc))]
    npre, npost = sum(pre), sum(post)
    hidden = visible is not None and not all(visible)
    if kind == "el-enabled":
        d = "rule=%s,op=el-enabled" % rule
        if rule == "OneOfMany" and npre == 1 and npost != 1:
            fails.append(("one-of-many", d, "pre %r op %r post %r" % (pre, op, post)))
        if rule == "AtMostOne" and npre <= 1 and npost > 1:
            fails.append(("at-most-one", d, "pre %r op %r post %r" % (pre, op, post)))
        return fails
    if kind == "value-none" or fault:
        # refusing None is fine, and so is an operation cut short by a failing handler of the driver or a failing
        # connection; whatever happens, the rule predicates hold for the state and for every publication
        pubs = [sum(1 for _, v in p if v == "On") for p in published]
        d = "rule=%s,op=%s" % (rule, "value-none" if kind == "value-none" else "%s,handler-fault" % (kind if kind != "client" or len(op[1]) == 1 else "client-multi"))
        if rule == "OneOfMany" and npre == 1 and (npost != 1 or any((x > 1) if hidden else (x != 1) for x in pubs)):
            fails.append(("one-of-many", d, "pre %r op %r post %r published %r" % (pre, op, post, pubs)))
        if rule == "AtMostOne" and npre <= 1 and (npost > 1 or any(x > 1 for x in pubs)):
            fails.append(("at-most-one", d, "pre %r op %r post %r published %r" % (pre, op, post, pubs)))
        if rule == "AnyOfMany":
            named = [op[1]] if kind in ("value-none", "value", "bool") else ([i for i, _ in op[1]] if kind == "client" else None)
            if named is not None and any(pre[i] != post[i] for i in range(len(pre)) if i not in named):
                fails.append(("any-of-many-only-named", d, "pre %r op %r post %r" % (pre, op, post)))
        return fails
    # what the op names; eff = the part of a client write that no handler defers
    eff = None
    if kind == "client":
        eff = tuple((i, v) for i, v in op[1] if i not in deferred)
        named = [i for i, _ in op[1]]
        turned_on = [i for i, v in eff if v]
    elif kind in ("value", "bool"):
        named = [op[1]]
        turned_on = [op[1]] if op[2] else []
    elif kind == "selected_value":
        named = None
        turned_on = [op[1]]
    else:
        named = None
        turned_on = list(op[1])
    d = "rule=%s,op=%s%s%s" % (rule, kind if kind != "client" or len(op[1]) == 1 else "client-multi", ",deferred" if kind == "client" and len(eff) != len(op[1]) else "", ",hidden-switch" if hidden else "")
    pubs = [sum(1 for _, v in p if v == "On") for p in published]
    if rule == "OneOfMany" and npre == 1:
        if npost != 1:
            fails.append(("one-of-many", d, "pre %r op %r post %r" % (pre, op, post)))
        # (a publication lists the visible switches only: with a hidden switch it may show none On, never two)
        if any((p > 1) if hidden else (p != 1) for p in pubs):
            fails.append(("one-of-many-published", d, "pre %r op %r published On-counts %r" % (pre, op, pubs)))
    if rule == "AtMostOne" and npre <= 1:
        if npost > 1:
            fails.append(("at-most-one", d, "pre %r op %r post %r" % (pre, op, post)))
        if any(p > 1 for p in pubs):
            fails.append(("at-most-one-published", d, "pre %r op %r published On-counts %r" % (pre, op, pubs)))
    if rule == "AnyOfMany" and named is not None:
        changed = [i for i in range(len(pre)) if pre[i] != post[i]]
        if any(i not in named for i in changed):
            fails.append(("any-of-many-only-named", d, "pre %r op %r post %r" % (pre, op, post)))
        pairs = eff if kind == "client" else ((op[1], op[2]),)
        if len({i for i, _ in pairs}) == len(pairs):
            for i, v in pairs:
                if post[i] != v:
                    fails.append(("any-of-many-value", d, "pre %r op %r post %r" % (pre, op, post)))
    # turning a switch On leaves it On
    if turned_on:
        if rule == "AnyOfMany":
            must = turned_on
        elif kind == "selected_values" and len(turned_on) > 1:
            must = []  # several names under an exclusive rule: not judged
        else:
            must = [turned_on[-1]]
        if kind == "client" and len(eff) > 1 and rule != "AnyOfMany":
            # later Off of the same / forced-on interplay: judge only if the last named On is not switched Off later
            last_on = max(j for j, (i, v) in enumerate(eff) if v)
            i_on = eff[last_on][0]
            later_off = any((i == i_on and not v) for i, v in eff[last_on + 1 :])
            must = [] if later_off else [i_on]
        for i in must:
            if not post[i]:
                fails.append(("turn-on-stays-on", d, "pre %r op %r post %r" % (pre, op, post)))
    # the published final message reflects the final state
    if published and kind != "selected_values" and kind != "selected_value":
        last = published[-1]
        got = tuple(v == "On" for _, v in last)
        if got != tuple(p for i, p in enumerate(post) if visible is None or visible[i]):
            fails.append(("published-final-state", d, "post %r last published %r" % (post, last)))
    return fails


def getters(sysm, rule, post):
    """what selected_values / selected_value report must be the switches that are On (they are the driver author's
    view of the same state the rule is judged on)"""
    want = tuple("S%d" % i for i, v in enumerate(post) if v)
    fails = []
    try:
        got = tuple(sysm.vec.selected_values)
    except Exception as e:  # noqa
        got = repr(e)
    if got != want:
        fails.append(("selected-values-getter", "rule=%s" % rule, "switches On %r, selected_values %r" % (want, got)))
    if len(want) <= 1:
        try:
            one = sysm.vec.selected_value
        except Exception as e:  # noqa
            one = repr(e)
        if one != (want[0] if want else None):
            fails.append(("selected-value-getter", "rule=%s" % rule, "switches On %r, selected_value %r" % (want, one)))
    return fails


def run_shard(shard):
    tier, rule, n, init, mode = shard
    res = {"states": 0, "transitions": 0, "violations": [], "samples": [], "counters": {}, "graphs": 1, "published_checked": 0}
    sig = {}
    from collections import deque

    root = Sys(rule, init, mode)
    s0 = root.state()
    parent = {s0: None}
    fr = deque([s0])
    allops = list(ops(n, tier, mode))
    alt = {}
    while fr:
        st = fr.popleft()
        path = []
        x = st
        while parent[x] is not None:
            x, op = parent[x]
            path.append(op)
        path.reverse()
        for op in allops:
            sysm = Sys(rule, init, mode)
            for p in path:
                sysm.apply_quiet(p)
            if sysm.state() != st:
                # the same operations on a FRESH driver gave another state than they did a moment ago: the outcome of a
                # write depends on something outside this property (other vectors / drivers that existed in the process)
                key = ("depends-on-other-vectors", "rule=%s" % rule)
                if key in sig:
                    sig[key]["count"] += 1
                else:
                    sig[key] = {"clause": key[0], "disc": key[1], "count": 1, "what": "operations %r on a fresh driver reached %r; the same operations on an earlier fresh driver reached %r" % (path, sysm.state(), st), "replay": {"rule": rule, "init": init, "path": path, "op": None, "mode": mode, "diverged": True, "n": n, "tier": tier, "expected": repr(st)}}
                break
            pre = sysm.on()
            exc = None
            published = []
            try:
                published = sysm.apply(op)
            except Exception as e:
                exc = e
            post = sysm.on()
            res["transitions"] += 1
            res["published_checked"] += len(published)
            if isinstance(exc, HandlerFault) or sysm.faulted:
                published = [tuple((c.name, c.value) for c in m.children) for m in sysm.published if type(m).__name__ == "SetSwitchVector"]
                res["handler_faults"] = res.get("handler_faults", 0) + 1
            fails = oracle(rule, pre, op, post, published, exc, sysm.deferred, sysm.faulted, sysm.visible())
            fails += getters(sysm, rule, post)
            for clause, disc, what in fails:
                key = (clause, disc)
                if key in sig:
                    sig[key]["count"] += 1
                else:
                    sig[key] = {"clause": clause, "disc": disc, "what": what, "count": 1, "replay": {"rule": rule, "init": init, "path": path, "op": op, "mode": mode}}
            if fails and exc is not None:
                continue
            ns = sysm.state()
            if ns not in parent:
                parent[ns] = (st, op)
                fr.append(ns)
            elif ns != st and len(path) + 1 >= len(alt.get(ns, ())):
                alt[ns] = path + [op]  # another (longer) history that enters the same switch state
    # second histories: the driver / vector may carry more state than the switch values (a remembered request, a
    # selection tracker ...); entering every state once more by a different history and applying every operation from
    # there shows it, at twice the cost instead of a product with whatever is remembered
    for st, apath in alt.items():
        tree = []
        x = st
        while parent[x] is not None:
            x, op_ = parent[x]
            tree.append(op_)
        tree.reverse()
        if apath == tree:
            continue
        res["second_histories"] = res.get("second_histories", 0) + 1
        for op in allops:
            sysm = Sys(rule, init, mode)
            for p in apath:
                sysm.apply_quiet(p)
            if sysm.state() != st:
                key = ("depends-on-other-vectors", "rule=%s" % rule)
                if key in sig:
                    sig[key]["count"] += 1
                else:
                    sig[key] = {"clause": key[0], "disc": key[1], "count": 1, "what": "operations %r on a fresh driver reached %r; the same operations on an earlier fresh driver reached %r" % (apath, sysm.state(), st), "replay": {"rule": rule, "init": init, "path": apath, "op": None, "mode": mode, "diverged": True, "n": n, "tier": tier, "expected": repr(st)}}
                break
            pre = sysm.on()
            exc = None
            published = []
            try:
                published = sysm.apply(op)
            except Exception as e:
                exc = e
            post = sysm.on()
            res["transitions"] += 1
            if isinstance(exc, HandlerFault) or sysm.faulted:
                published = [tuple((c.name, c.value) for c in m.children) for m in sysm.published if type(m).__name__ == "SetSwitchVector"]
            fails = oracle(rule, pre, op, post, published, exc, sysm.deferred, sysm.faulted, sysm.visible())
            fails += getters(sysm, rule, post)
            for clause, disc, what in fails:
                key = (clause, disc + ",second-history")
                if key in sig:
                    sig[key]["count"] += 1
                else:
                    sig[key] = {"clause": clause, "disc": disc + ",second-history", "what": what, "count": 1, "replay": {"rule": rule, "init": init, "path": apath, "op": op, "mode": mode, "second": True}}
    res["states"] = len(parent)
    res["violations"] = list(sig.values())
    if n == 3 and init == (True, False, False):
        res["samples"].append({"rule": rule, "initial": init, "states": len(parent), "ops_per_state": len(allops), "example_op": allops[-1]})
    return res


def finish(tier, seed, m):
    cov = {
        "states": m["states"],
        "transitions": m["transitions"],
        "traces_validated_against_impl": m["transitions"],
        "graphs": m["graphs"],
        "published_messages_checked": m["published_checked"],
        "handler_modes": [str(x) for x in MODES],
        "operations_cut_short_by_a_failing_handler_or_client": m.get("handler_faults", 0),
        "samples": m["samples"][:3],
        "exhaustive": True,
        "states_also_entered_by_a_second_history": m.get("second_histories", 0),
        "explanation": "each graph (rule, n, initial configuration) is explored to fixpoint; every transition runs the real SwitchVector through the real router",
    }
    cov["_vacuity_errors"] = ([] if m["published_checked"] > 1000 else ["few published messages"]) + ([] if m.get("handler_faults", 0) > 100 else ["failing handlers barely fired"])
    return cov


def _t(x):
    if isinstance(x, list):
        return tuple(_t(i) for i in x)
    return x


def replay(rep):
    if rep.get("diverged"):
        # warm-up: every operation once on fresh drivers (what the search had done before), then the path on another one
        init = _t(rep["init"])
        for op in ops(rep["n"], rep["tier"], rep.get("mode")):
            w_ = Sys(rep["rule"], init, rep.get("mode"))
            try:
                w_.apply(op)
            except Exception:
                pass
        sysm = Sys(rep["rule"], init, rep.get("mode"))
        for p in _t(rep["path"]):
            sysm.apply_quiet(p)
        if repr(sysm.state()) != rep["expected"]:
            return [{"clause": "depends-on-other-vectors", "disc": "rule=%s" % rep["rule"], "what": "fresh driver reached %r, expected %s" % (sysm.state(), rep["expected"])}]
        return []
    sysm = Sys(rep["rule"], _t(rep["init"]), rep.get("mode", "republish" if rep.get("republish") else None))
    for p in _t(rep["path"]):
        sysm.apply_quiet(p)
    op = _t(rep["op"])
    pre = sysm.on()
    exc = None
    pub = []
    try:
        pub = sysm.apply(op)
    except Exception as e:
        exc = e
    if isinstance(exc, HandlerFault) or sysm.faulted:
        pub = [tuple((c.name, c.value) for c in m.children) for m in sysm.published if type(m).__name__ == "SetSwitchVector"]
    sfx = ",second-history" if rep.get("second") else ""
    return [{"clause": c, "disc": d + sfx, "what": w} for c, d, w in oracle(rep["rule"], pre, op, sysm.on(), pub, exc, sysm.deferred, sysm.faulted, sysm.visible()) + getters(sysm, rep["rule"], sysm.on())]
