"""Shared harness for C15 / C16: message alphabet, the real BaseClient with a recording
send_message, public-API view extraction, event normalisation."""
import base64

from mc.gen import messages as G
from mc.ref import client_model as CM
from mc.ref import xmlview as X

B1 = base64.b64encode(b"ab").decode()
B2 = base64.b64encode(b"\x00\xff\x10").decode()

VALS = {
    "Text": ("t1", "t2"),
    "Number": ("1", "2.5"),
    "Switch": ("On", "Off"),
    "Light": ("Ok", "Alert"),
}
DEFPART = {"Text": "defText", "Number": "defNumber", "Switch": "defSwitch", "Light": "defLight", "BLOB": "defBLOB"}
ONEPART = {"Text": "oneText", "Number": "oneNumber", "Switch": "oneSwitch", "Light": "oneLight", "BLOB": "oneBLOB"}


def defmsg(dev, name, K, els, state="Ok", label=None, group=None, v=0, rule="AnyOfMany"):
    attrs = [("device", dev), ("name", name), ("state", state)]
    if K != "Light":
        attrs.append(("perm", "rw"))
    if K == "Switch":
        attrs.append(("rule", rule))
    if label:
        attrs.append(("label", label))
    if group:
        attrs.append(("group", group))
    ch = []
    for i, e in enumerate(els):
        ca = [("name", e)]
        if K == "Number":
            ca += [("format", "%g"), ("min", "0"), ("max", "9"), ("step", "1")]
        if i == 0 and label:
            ca.append(("label", "L" + e))
        ct = None if K == "BLOB" else VALS[K][(v + i) % 2]
        ch.append((DEFPART[K], tuple(ca), ct))
    return ("def%sVector" % K, tuple(attrs), None, tuple(ch))


def setmsg(dev, name, K, elvals, state="Ok"):
    attrs = (("device", dev), ("name", name), ("state", state))
    ch = []
    for e, val in elvals:
        if K == "BLOB":
            if val == "empty":
                ch.append(("oneBLOB", (("name", e), ("size", "0"), ("format", ".x")), None))
            elif val == "absent":
                ch.append(("oneBLOB", (("name", e), ("size", "3"), ("format", ".x")), None))
            elif val == "wrapped":
                raw = bytes(range(60))
                b = base64.b64encode(raw).decode()
                ch.append(("oneBLOB", (("name", e), ("size", str(len(raw))), ("format", ".w")), b[:40] + "\n" + b[40:72] + "\n  " + b[72:]))
            elif val == "wrong-size":
                ch.append(("oneBLOB", (("name", e), ("size", "5"), ("format", ".x")), B1))
            elif val == "bad-base64":
                ch.append(("oneBLOB", (("name", e), ("size", "3"), ("format", ".x")), "@@@="))
            elif val == "bad-size":
                ch.append(("oneBLOB", (("name", e), ("size", "big"), ("format", ".x")), B1))
            else:
                raw = {B1: b"ab", B2: b"\x00\xff\x10"}[val]
                ch.append(("oneBLOB", (("name", e), ("size", str(len(raw))), ("format", ".x" if val == B1 else ".y")), val))
        else:
            ch.append((ONEPART[K], (("name", e),), val))
    return ("set%sVector" % K, attrs, None, tuple(ch))


def alphabet(tier):
    A = []
    kinds = ("Text", "Number", "Switch", "Light", "BLOB")
    for K in kinds:
        A.append(defmsg("D1", "V1", K, ("a", "b"), "Ok", "L1", "G1"))
    for K in ("Text", "Number") if tier == "quick" else kinds:
        A.append(defmsg("D1", "V1", K, ("a",), "Busy", None, None, 1))
    A.append(defmsg("D1", "V2", "Text", ("a",)))
    A.append(defmsg("D2", "V1", "Text", ("a", "b"), "Idle"))
    # exclusive switch rules: the client mirrors what it is told, it does not apply the rule to partial updates itself
    A.append(defmsg("D1", "V1", "Switch", ("a", "b"), "Ok", None, None, 0, "OneOfMany"))
    if tier == "thorough":
        A.append(defmsg("D1", "V1", "Switch", ("a", "b"), "Ok", None, None, 0, "AtMostOne"))
    # a redefinition that ADDS an element (and reorders): the client must learn the new member
    A.append(defmsg("D1", "V1", "Text", ("c", "a", "b"), "Ok", None, "G3"))
    A.append(setmsg("D1", "V1", "Text", (("c", "t2"),), "Idle"))
    if tier == "thorough":
        A.append(defmsg("D2", "V2", "Switch", ("a", "b"), "Ok"))
        A.append(defmsg("D1", "V2", "Number", ("a", "b"), "Alert", "L2", "G2"))
        # a third element, reordered and overlapping element sets (redefinition with other members)
        A.append(defmsg("D1", "V1", "Text", ("b", "c"), "Idle", "L3", None, 1))
        A.append(defmsg("D1", "V1", "Switch", ("c", "b"), "Alert"))
        A.append(setmsg("D1", "V1", "Text", (("c", "t1"), ("a", "t2")), "Alert"))
        A.append(setmsg("D1", "V1", "Switch", (("c", "On"),)))
        A.append(setmsg("D2", "V1", "Text", (("b", "t1"),), "Ok"))
        A.append(setmsg("D2", "V2", "Switch", (("a", "Off"), ("b", "On")), "Busy"))
        A.append(("delProperty", (("device", "D2"), ("name", "V1")), None, ()))
        A.append(("delProperty", (("device", "D2"), ("name", "V2"), ("message", "gone"), ("timestamp", "2024-01-01T00:00:00")), None, ()))
    for K in kinds:
        if K == "BLOB":
            v1, v2 = B1, B2
        else:
            v1, v2 = VALS[K]
        A.append(setmsg("D1", "V1", K, (("a", v1),)))
        A.append(setmsg("D1", "V1", K, (("b", v1),)))
        A.append(setmsg("D1", "V1", K, (("a", v2), ("b", v2)), "Busy"))
        A.append(setmsg("D1", "V1", K, (("z", v1),)))
        A.append(setmsg("D1", "V1", K, (), "Alert"))
        if tier == "thorough":
            A.append(setmsg("D1", "V1", K, (("a", v1), ("z", v2), ("b", v1)), "Ok"))
    A.append(setmsg("D1", "V1", "BLOB", (("a", "empty"),)))
    A.append(setmsg("D1", "V1", "BLOB", (("a", "absent"),)))
    # payload wrapped into lines, as indiserver sends it
    A.append(setmsg("D1", "V1", "BLOB", (("a", "wrapped"),)))
    # a valid element followed by one whose declared size / payload is inconsistent
    A.append(setmsg("D1", "V1", "BLOB", (("a", B2), ("b", "wrong-size"))))
    A.append(setmsg("D1", "V1", "BLOB", (("b", "bad-base64"),)))
    A.append(setmsg("D1", "V1", "BLOB", (("a", "bad-size"),)))
    # empty text (an element without character data): value "nothing", and no event when nothing changes
    A.append(("defTextVector", (("device", "D1"), ("name", "V1"), ("state", "Ok"), ("perm", "rw")), None, (("defText", (("name", "a"),), None), ("defText", (("name", "b"),), "t1"))))
    A.append(setmsg("D1", "V1", "Text", (("a", None),)))
    A.append(setmsg("D1", "V1", "Text", (("b", None),)))
    # the same element named twice in one update
    A.append(setmsg("D1", "V1", "Text", (("a", "t2"), ("a", "t1"))))
    A.append(setmsg("D1", "V1", "Number", (("a", "2.5"), ("b", "1"), ("a", "1"))))
    A.append(setmsg("D1", "V1", "Switch", (("a", "Off"), ("a", "On"))))
    # ... and in one definition (the later one is the element's definition)
    A.append(("defTextVector", (("device", "D1"), ("name", "V1"), ("state", "Ok"), ("perm", "rw")), None, (("defText", (("name", "a"),), "t1"), ("defText", (("name", "b"),), "t2"), ("defText", (("name", "a"),), "t2"))))
    A.append(setmsg("D1", "V2", "Text", (("a", "t2"),)))
    A.append(setmsg("D2", "V1", "Text", (("a", "t2"),), "Busy"))
    A.append(setmsg("D1", "V9", "Text", (("a", "t1"),)))
    A.append(setmsg("D9", "V1", "Text", (("a", "t1"),)))
    for dev, name in (("D1", "V1"), ("D1", "V2"), ("D1", None), ("D2", None), ("D1", "V9"), ("D9", None)):
        attrs = (("device", dev),) + ((("name", name),) if name else ())
        A.append(("delProperty", attrs, None, ()))
    A.append(("message", (("device", "D1"), ("message", "hello")), None, ()))
    A.append(("message", (("message", "hello")), None, ()) if False else ("message", (("message", "hi"),), None, ()))
    A.append(("pingRequest", (("uid", "1"),), None, ()))
    A.append(("getProperties", (("version", "1.7"), ("device", "D1")), None, ()))
    return A


_SP = None


def spelling_for(i):
    global _SP
    if _SP is None:
        # (without the spelling that writes an empty element as white space between its tags: whether that reads as
        # "no text" or as "empty text" is left open by C03's normalisation and is not the client's business)
        _SP = [sp for sp in G.spellings("quick") if sp.empty != 3]
    return _SP[i % len(_SP)]


def wire(desc, i=0):
    return G.serialise(desc, spelling_for(i))


class RealClient:
    """the real BaseClient (or SnoopingClient) + a catch-all event log, built fresh per execution"""

    def __init__(self, snoop=False):
        from indi.client import events as CE
        from indi.client.client import BaseClient

        self.sent = []
        outer = self
        if snoop:
            from indi.device.snoop import SnoopingClient

            class C(SnoopingClient):
                def send_message(self, msg):
                    outer.sent.append(msg)

            self.client = C(None)
        else:

            class C(BaseClient):
                def send_message(self, msg):
                    outer.sent.append(msg)

            self.client = C()
        self.CE = CE
        self.events = []
        self.client.onevent(callback=lambda ev: self.events.append(norm_event(ev)))

    def feed(self, desc, i=0):
        """parse from a foreign spelling with the real parser and process; returns (events, exception)"""
        import indi.message as M

        self.events.clear()
        text = wire(desc, i)
        msg = M.IndiMessage.from_string(text)
        try:
            if hasattr(self.client, "message_from_device"):
                self.client.message_from_device(msg)
            else:
                self.client.process_message(msg)
        except Exception as e:  # noqa
            return list(self.events), e
        return list(self.events), None

    def view(self):
        return lib_view(self.client)


def elval(el):
    v = el.value
    if hasattr(v, "binary"):
        return (bytes(v.binary), v.format)
    return v


def lib_view(client):
    """mirror as seen through the public API: same shape as Mirror.canon()"""
    out = []
    for dn in sorted(client.list_devices()):
        dev = client.get_device(dn)
        props = []
        for vn in sorted(dev.list_vectors()):
            vec = dev.get_vector(vn)
            kind = type(vec).__name__.replace("Vector", "")
            els = tuple((en, elval(vec.get_element(en))) for en in vec.list_elements())
            labels = tuple((en, vec.get_element(en).label) for en in vec.list_elements())
            props.append((vn, (kind, vec.state, vec.label, vec.group, els, labels)))
        out.append((dn, tuple(props)))
    return tuple(out)


def model_view(m):
    return m.canon()


def views_equal(libv, modv):
    """compare with the leniency for empty BLOB payloads: 'EMPTY' matches None or an empty BLOB"""
    if libv == modv:
        return True
    if len(libv) != len(modv):
        return False
    for (ld, lp), (md, mp) in zip(libv, modv):
        if ld != md or len(lp) != len(mp):
            return False
        for (ln, l), (mn, mm) in zip(lp, mp):
            if ln != mn or l[:4] != mm[:4] or l[5] != mm[5] or len(l[4]) != len(mm[4]):
                return False
            for (le, lval), (me, mval) in zip(l[4], mm[4]):
                if le != me:
                    return False
                if lval == mval:
                    continue
                if isinstance(mval, tuple) and mval[0] == "ANY":
                    continue
                if isinstance(mval, tuple) and mval[0] == "EMPTY":
                    if lval is None or (isinstance(lval, tuple) and lval[0] == b"" and lval[1] == mval[1]):
                        continue
                return False
    return True


def norm_event(ev):
    t = type(ev).__name__
    dev = ev.device.name if ev.device else None
    vec = ev.vector.name if ev.vector else None
    el = ev.element.name if getattr(ev, "element", None) else None
    if t == "ValueUpdate":
        # 7th field: old and new value are the very same object (certainly no change, whatever the kind)
        return (t, dev, vec, el, nv(ev.old_value), nv(ev.new_value), ev.old_value is ev.new_value and ev.old_value is not None)
    if t == "StateUpdate":
        return (t, dev, vec, None, ev.old_state, ev.new_state)
    return (t, dev, vec, None, None, None)


def nv(v):
    if hasattr(v, "binary"):
        return (bytes(v.binary), v.format)
    return v


def ev_match(got, want):
    """event equality with the EMPTY leniency"""
    if got == want:
        return True
    if got[:4] != want[:4]:
        return False
    for g, w in ((got[4], want[4]), (got[5], want[5])):
        if g == w:
            continue
        if isinstance(w, tuple) and w[0] == "ANY":
            continue
        if isinstance(w, tuple) and w[0] == "EMPTY" and (g is None or (isinstance(g, tuple) and g[0] == b"" and g[1] == w[1])):
            continue
        return False
    return True


def events_ok(got, must, may):
    """got must contain every 'must' event exactly once and otherwise only 'may' events (multiset)"""
    rest = list(got)
    for w in must:
        for i, g in enumerate(rest):
            if ev_match(g, w):
                del rest[i]
                break
        else:
            return False, "missing event %r" % (w,)
    allowed = list(may)
    for g in rest:
        for i, w in enumerate(allowed):
            if ev_match(g, w):
                del allowed[i]
                break
        else:
            return False, "unexpected event %r" % (g,)
    return True, ""


def model_graph(alpha, state_cap=None):
    """BFS over MODEL states (pure reference, fast): returns list of (canon, path) in BFS order"""
    from collections import deque

    views = [X.view_of_desc(d) for d in alpha]
    m0 = CM.Mirror()
    seen = {m0.canon(): 0}

    class Order(list):
        """(canon, BFS-tree path) per state; .alt[i] = ANOTHER history that reaches state i (the last non-tree edge
        found, i.e. a long one - typically through deletions and redefinitions): an implementation whose state is more
        than the model state (parked objects, caches) shows when the same state is entered that way"""

    order = Order([(m0.canon(), ())])
    order.alt = {}
    models = {0: m0}
    fr = deque([0])
    while fr:
        si = fr.popleft()
        m = models.pop(si)
        path = order[si][1]
        for ai, v in enumerate(views):
            mm = m.copy()
            mm.step(v)
            c = mm.canon()
            if c not in seen:
                if state_cap and len(order) >= state_cap:
                    continue
                seen[c] = len(order)
                order.append((c, path + (ai,)))
                models[seen[c]] = mm
                fr.append(seen[c])
            elif path + (ai,) != order[seen[c]][1] and len(path) + 1 > len(order[seen[c]][1]):
                order.alt[seen[c]] = path + (ai,)
    return order
