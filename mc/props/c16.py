"""C16 - client change events are complete and exact.

(A) On the complete mirror-state graph of C15 (explored to fixpoint), 108 callbacks - every
    combination of device / property / element filter in {absent, matching, non-matching} x
    event type in {Base, Value, State, Definition} - are registered at once; on EVERY
    transition each callback's log must be exactly the sub-multiset of the reference
    interpreter's events that matches its filter.  Along every BFS-tree path the per-element /
    per-property chain law is checked against the final public view.
(B) Dynamic registration: in every reachable state, one registration operation (remove by id,
    remove by criteria, add) performed before the next message or FROM INSIDE a callback
    (self-removal, removal of another callback, registration of a new one), with plain,
    coroutine and raising callbacks, at every position of the registration order.
"""
import itertools

from mc.props import c15
from mc.props import client_common as CC
from mc.ref import client_model as CM
from mc.ref import xmlview as X

LEVEL = "model_checking"
ASSUMPTIONS = [
    "I-1: a definition starts a new incarnation of the property (events with old value None start a new chain)",
    "I-2: identical BLOB re-send may or may not raise ValueUpdate",
    "a callback removed while an event is being dispatched: if it is registered BEFORE the remover it may or may not have received that same event, if AFTER it must not (never after it has been removed); never a later event; a callback added during dispatch may or may not receive that same event",
]
NSH = 16
TYPES = ("BaseEvent", "ValueUpdate", "StateUpdate", "DefinitionUpdate")
FILTERS = [(d, v, e, t) for d in (None, "D1", "DX") for v in (None, "V1", "VX") for e in (None, "a", "zz") for t in TYPES]


def accepts(f, ev):
    d, v, e, t = f
    if d is not None and d != ev[1]:
        return False
    if v is not None and v != ev[2]:
        return False
    if e is not None and e != ev[3]:
        return False
    return t == "BaseEvent" or t == ev[0]


def shards(tier, seed):
    c15.graph(tier)
    return [(tier, "A", i) for i in range(NSH)] + [(tier, "B", i) for i in range(NSH)]


def new_client(loop=None):
    rc = CC.RealClient(False)
    rc.client.callbacks.clear()  # drop the catch-all of RealClient; C16 registers its own
    return rc


def etype(rc, t):
    return getattr(rc.CE, t)


def part_a(tier, idx, res, viol):
    alpha, order = c15.graph(tier)
    views = [X.view_of_desc(d) for d in alpha]
    for si, (canon, path) in enumerate(order):
        if si % NSH != idx:
            continue
        res["states"] += 1
        # chain law along the BFS-tree path
        chain_check(alpha, views, path, res, viol)
        histories = [path]
        alt = getattr(order, "alt", {}).get(si)
        if alt is not None and any(alpha[pi][0] == "delProperty" for pi in alt):
            # the same state entered through deletions and re-definitions: callbacks registered before that history
            # are still registered after it
            histories.append(alt)
            chain_check(alpha, views, alt, res, viol)
            res["counters"]["second_histories"] = res["counters"].get("second_histories", 0) + 1
        for path, ai in [(h, ai) for h in histories for ai in range(len(alpha))]:
            rc = new_client()
            logs = [[] for _ in FILTERS]
            for k, f in enumerate(FILTERS):
                rc.client.onevent(callback=(lambda ev, k=k: logs[k].append(CC.norm_event(ev))), device=f[0], vector=f[1], element=f[2], event_type=etype(rc, f[3]))
            m = CM.Mirror()
            bad = False
            for k, pi in enumerate(path):
                _, exc = rc.feed(alpha[pi], k)
                m.step(views[pi])
                if exc is not None:
                    bad = True
                    break
            if bad:
                continue
            for l in logs:
                l.clear()
            must, may = m.step(views[ai])
            _, exc = rc.feed(alpha[ai], len(path))
            res["transitions"] += 1
            rep = {"kind": "A", "path": list(path), "msg": ai}
            if exc is not None:
                continue  # C15's business
            for e in logs[0]:  # the catch-all callback: an event whose old and new value are the same object is no change
                if e[0] == "ValueUpdate" and len(e) > 6 and e[6]:
                    viol("event-without-change", "msg=%s" % alpha[ai][0], "after %r + %r: %r raised although the value is the same object" % (path, alpha[ai], e[:6]), rep)
            for k, f in enumerate(FILTERS):
                wm = [e for e in must if accepts(f, e)]
                wy = [e for e in may if accepts(f, e)]
                ok, why = CC.events_ok(logs[k], wm, wy)
                res["counters"]["callback_logs"] = res["counters"].get("callback_logs", 0) + 1
                if logs[k]:
                    res["counters"]["nonempty_logs"] = res["counters"].get("nonempty_logs", 0) + 1
                if not ok:
                    fclass = "filter=%s/%s/%s/%s" % (tuple("any" if x is None else ("match" if x in ("D1", "V1", "a") else "nomatch") for x in f[:3]) + (f[3],))
                    viol("callback-log", "msg=%s,%s,%s" % (alpha[ai][0], fclass, why.split(" ")[0]), "after %r + %r: callback %r: %s; log %r" % (path, alpha[ai], f, why, logs[k]), rep)


def chain_check(alpha, views, path, res, viol):
    rc = CC.RealClient(False)
    allev = []
    for k, pi in enumerate(path):
        ev, exc = rc.feed(alpha[pi], k)
        if exc is not None:
            return
        allev.extend(ev)
        if alpha[pi][0] == "delProperty":
            allev.append(("DEL",) + tuple(dict(alpha[pi][1]).get(x) for x in ("device", "name")))
    last = {}
    for e in allev:
        if e[0] == "DEL":
            for key in list(last):
                if key[1] == e[1] and (e[2] is None or key[2] == e[2]):
                    del last[key]
            continue
        if e[0] not in ("ValueUpdate", "StateUpdate"):
            continue
        key = (e[0], e[1], e[2], e[3])
        old, new = e[4], e[5]
        if old is None:
            last[key] = new  # new incarnation (I-1)
            continue
        if key in last and last[key] != old:
            viol("chain-broken", "type=%s" % e[0], "path %r: event %r but previous new value was %r" % (path, e, last[key]), {"kind": "chain", "path": list(path)})
        last[key] = new
    # last event's new value == current value
    view = dict((d, dict(p)) for d, p in rc.view())
    for (t, d, v, el), new in last.items():
        pr = view.get(d, {}).get(v)
        if pr is None:
            continue
        cur = pr[1] if t == "StateUpdate" else dict(pr[4]).get(el, "<gone>")
        if cur == "<gone>":
            continue
        if cur != new:
            viol("chain-stale", "type=%s" % t, "path %r: last %s for %s/%s/%s had new=%r but current is %r" % (path, t, d, v, el, new, cur), {"kind": "chain", "path": list(path)})
    res["counters"]["chains"] = res["counters"].get("chains", 0) + len(last)


# ---------------------------------------------------------------------------------------
# part B

PROBES = [(None, None, None, "BaseEvent"), ("D1", None, None, "BaseEvent"), ("D1", "V1", "a", "ValueUpdate"), (None, "V1", None, "StateUpdate"), ("DX", None, None, "BaseEvent"), (None, None, None, "DefinitionUpdate")]
OPS = ["rm-self", "rm-other-later", "rm-other-earlier", "rm-criteria-D1", "rm-callback-later", "rm-type-State", "add-new", "raise", "none"]
STYLES = ["plain", "coroutine"]


def part_b_cases(tier):
    for op in OPS:
        for style in STYLES:
            for pos in (0, 3, len(PROBES)):
                for when in ("inside", "before"):
                    if op in ("raise", "none") and when == "before":
                        continue
                    if style == "coroutine" and (when == "before" or op == "none"):
                        continue
                    yield (op, style, pos, when)


def run_b(alpha, views, path, ai, case, res, viol):
    from mc.core import vloop as V

    op, style, pos, when = case
    loop = V.VLoop().install()
    try:
        rc = new_client()
        client = rc.client
        logs = {}
        uuids = {}
        state = {"fired": False, "op_done_at": None, "seq": 0}
        reg_order = []

        probes = {}

        class Probe:
            """callbacks are bound methods, as application objects usually register them"""

            def __init__(self, name):
                self.name = name

            def cb(self, ev):
                state["seq"] += 1
                logs[self.name].append((state["seq"], CC.norm_event(ev)))

            async def acb(self, ev):
                state["seq"] += 1
                logs[self.name].append((state["seq"], CC.norm_event(ev)))

        def mk_probe(name, f):
            logs[name] = []
            probes[name] = Probe(name)
            # every other probe is a coroutine callback (runs as a task; logs are read at quiescence)
            is_coro = name[0] == "p" and int(name[1:]) % 2 == 1
            uuids[name] = client.onevent(callback=probes[name].acb if is_coro else probes[name].cb, device=f[0], vector=f[1], element=f[2], event_type=etype(rc, f[3]))
            reg_order.append(name)

        def do_op():
            state["op_done_at"] = state["seq"]
            if op == "rm-self":
                client.rmonevent(uuid=uuids["S"])
            elif op == "rm-other-later":
                client.rmonevent(uuid=uuids["p%d" % (len(PROBES) - 1)])
            elif op == "rm-other-earlier":
                client.rmonevent(uuid=uuids["p0"])
            elif op == "rm-criteria-D1":
                client.rmonevent(device="D1")
            elif op == "rm-callback-later":
                last = len(PROBES) - 1
                # a fresh, equal bound-method object of the method that was registered
                client.rmonevent(callback=probes["p%d" % last].acb if last % 2 == 1 else probes["p%d" % last].cb)
            elif op == "rm-type-State":
                client.rmonevent(event_type=etype(rc, "StateUpdate"))
            elif op == "add-new":
                mk_probe("N", (None, None, None, "BaseEvent"))

        def special_body(ev):
            state["seq"] += 1
            logs["S"].append((state["seq"], CC.norm_event(ev)))
            if when == "inside" and state.get("armed") and not state["fired"]:
                state["fired"] = True
                if op == "raise":
                    state["op_done_at"] = state["seq"]
                    raise RuntimeError("callback failure injected by the harness")
                do_op()

        if style == "coroutine":

            async def special(ev):
                special_body(ev)

        else:

            def special(ev):
                special_body(ev)

        for i, f in enumerate(PROBES):
            if i == pos:
                logs["S"] = []
                uuids["S"] = client.onevent(callback=special)
                reg_order.append("S")
            mk_probe("p%d" % i, f)
        if pos >= len(PROBES):
            logs["S"] = []
            uuids["S"] = client.onevent(callback=special)
            reg_order.append("S")
        m = CM.Mirror()
        for k, pi in enumerate(path):
            _, exc = rc.feed(alpha[pi], k)
            loop.quiesce()
            m.step(views[pi])
            if exc is not None:
                return
        state["armed"] = True  # the special callback acts on the first event of the NEXT message only
        for l in logs.values():
            l.clear()
        state["seq"] = 0
        if when == "before":
            do_op()
            state["op_done_at"] = 0
        must, may = m.step(views[ai])
        _, exc = rc.feed(alpha[ai], len(path))
        loop.quiesce()
        res["transitions"] += 1
        rep = {"kind": "B", "path": list(path), "msg": ai, "case": list(case)}
        d = "op=%s,style=%s,when=%s" % (op, style, when)
        if exc is not None:
            from mc import lib

            viol("callback-exception-escaped" if op == "raise" else "raises", d + "," + lib.exc_site(exc), "%r" % (exc,), rep)
            return
        if not must:
            return
        res["counters"]["b_with_events"] = res["counters"].get("b_with_events", 0) + 1
        removed = set()
        if state["op_done_at"] is not None:
            if op == "rm-self":
                removed = {"S"}
            elif op == "rm-other-later":
                removed = {"p%d" % (len(PROBES) - 1)}
            elif op == "rm-other-earlier":
                removed = {"p0"}
            elif op == "rm-criteria-D1":
                removed = {"p%d" % i for i, f in enumerate(PROBES) if f[0] == "D1"}
            elif op == "rm-callback-later":
                removed = {"p%d" % (len(PROBES) - 1)}
            elif op == "rm-type-State":
                removed = {"p%d" % i for i, f in enumerate(PROBES) if f[3] == "StateUpdate"}
        # which event was being dispatched when the op happened: the event S logged first
        trigger = logs["S"][0][1] if (when == "inside" and logs["S"]) else None
        names = list(logs)
        for name in names:
            f = (None, None, None, "BaseEvent") if name in ("S", "N") else PROBES[int(name[1:])]
            got = [e for _, e in logs[name]]
            wm = [e for e in must if accepts(f, e)]
            wy = [e for e in may if accepts(f, e)]
            if name == "N":
                # registered during dispatch of `trigger`: later events must arrive, the trigger itself may
                if when == "inside" and style == "plain":
                    idx = next((i for i, e in enumerate(wm) if CC.ev_match(trigger, e)), None) if trigger else None
                    if idx is not None:
                        wy = wy + wm[: idx + 1]
                        wm = wm[idx + 1 :]
                elif when == "inside":
                    wy, wm = wy + wm, []
            elif name in removed:
                coro_probe = name[0] == "p" and int(name[1:]) % 2 == 1
                later = name in reg_order and reg_order.index(name) > reg_order.index("S")
                if when == "before":
                    wm, wy = [], []
                elif style == "plain" and coro_probe and name != "S":
                    # a coroutine callback runs as a task: events dispatched before the removal may still arrive, later ones not
                    idx = next((i for i, e in enumerate(wm) if trigger and CC.ev_match(trigger, e)), None)
                    keep = wm[: idx if idx is not None else 0]
                    # registered AFTER the remover: the dispatch has not reached it when it is removed - "never after
                    # it has been removed" - so the trigger must not arrive; registered before: its task exists already
                    wy = wy + ([wm[idx]] if idx is not None and not later else [])
                    wm = keep
                elif style == "plain":
                    # events strictly after the trigger must not arrive; the trigger itself may (if invoked before the op)
                    idx = next((i for i, e in enumerate(wm) if trigger and CC.ev_match(trigger, e)), None)
                    # (events the reference leaves optional - I-2 - stay optional: the trigger may be one of them)
                    if name == "S":
                        wm = wm[: (idx + 1) if idx is not None else 0]
                    else:
                        keep = wm[: idx if idx is not None else 0]
                        wy = wy + ([wm[idx]] if idx is not None and not later else [])
                        wm = keep
                else:
                    # coroutine special callback acts later (as a task): removal happens after the whole message
                    pass
            ok, why = CC.events_ok(got, wm, wy)
            if not ok:
                role = "special" if name == "S" else ("new" if name == "N" else ("removed" if name in removed else "bystander"))
                viol("dynamic-registration", d + ",role=%s,%s" % (role, why.split(" ")[0]), "state %r msg %r case %r: callback %s %r: %s; got %r; must %r" % (path, alpha[ai][0], case, name, f, why, got, wm), rep)
        errs = loop.collect_errors()
        if errs and op != "raise":
            viol("loop-error", d, repr(errs), rep)
    finally:
        loop.teardown()


def part_b(tier, idx, res, viol):
    alpha, order = c15.graph(tier)
    views = [X.view_of_desc(d) for d in alpha]
    cases = list(part_b_cases(tier))
    # messages that raise events in many states: all defs, sets
    k = -1
    for si, (canon, path) in enumerate(order):
        if len(path) > (2 if tier == "quick" else 3):
            continue
        for ai in range(len(alpha)):
            if alpha[ai][0][:3] not in ("def", "set"):
                continue
            k += 1
            if k % NSH != idx:
                continue
            for case in cases:
                run_b(alpha, views, path, ai, case, res, viol)
        res["states"] += 1 if si % NSH == idx else 0


def run_shard(shard):
    tier, what, idx = shard
    res = {"states": 0, "transitions": 0, "violations": [], "samples": [], "counters": {}}
    sig = {}

    def viol(clause, disc, whatmsg, replay):
        key = (clause, disc)
        if key in sig:
            sig[key]["count"] += 1
        else:
            sig[key] = {"clause": clause, "disc": disc, "what": whatmsg, "count": 1, "replay": dict(replay, tier=tier)}

    if what == "A":
        part_a(tier, idx, res, viol)
        if idx == 0:
            res["samples"].append({"filters": len(FILTERS), "example_filter": FILTERS[40], "registration_cases": [list(c) for c in list(part_b_cases(tier))[:4]]})
    else:
        part_b(tier, idx, res, viol)
    res["violations"] = list(sig.values())
    return res


def finish(tier, seed, m):
    alpha, order = c15.graph(tier)
    cov = {
        "states": len(order),
        "transitions": m["transitions"],
        "traces_validated_against_impl": m["transitions"],
        "callback_logs_compared": m["counters"].get("callback_logs", 0),
        "nonempty_callback_logs": m["counters"].get("nonempty_logs", 0),
        "chains_checked": m["counters"].get("chains", 0),
        "dynamic_registration_executions_with_events": m["counters"].get("b_with_events", 0),
        "samples": m["samples"][:2],
        "exhaustive": True,
        "explanation": "graph of C15 to fixpoint with 108 simultaneous filtered callbacks per transition; dynamic registration cases in every state (quick: states of depth <= 2, thorough: <= 3)",
    }
    errs = []
    if m["counters"].get("nonempty_logs", 0) < 1000:
        errs.append("few non-empty callback logs")
    if m["counters"].get("b_with_events", 0) < 500:
        errs.append("few dynamic-registration executions with events")
    cov["_vacuity_errors"] = errs
    return cov


def replay(rep):
    tier = rep.get("tier", "quick")
    alpha, order = c15.graph(tier)
    views = [X.view_of_desc(d) for d in alpha]
    out = []
    res = {"states": 0, "transitions": 0, "counters": {}}

    def viol(clause, disc, what, replay):
        out.append({"clause": clause, "disc": disc, "what": what})

    if rep["kind"] == "B":
        run_b(alpha, views, tuple(rep["path"]), rep["msg"], tuple(rep["case"]), res, viol)
    elif rep["kind"] == "chain":
        chain_check(alpha, views, tuple(rep["path"]), res, viol)
    else:
        # part A: rerun the single transition
        path, ai = tuple(rep["path"]), rep["msg"]
        order2 = [(None, path)]
        import types

        saved = c15._cache.get(tier)
        c15._cache[tier] = (alpha, order2)
        try:
            global NSH
            old = NSH
            NSH = 1
            part_a(tier, 0, res, viol)
            NSH = old
        finally:
            c15._cache[tier] = saved
        out[:] = [o for o in out]
    return out
