"""C04 - client messages reach exactly the addressed devices.

Explicit-state model checking of the real Router: the complete reachable graph of
(registered devices incl. a catch-all, registered clients, BLOB policies) for a bounded
universe is explored to fixpoint; in EVERY state every client-originated message kind x
device name {A, B, none, unknown} x sender is sent and the deliveries compared with a
reference model.
"""
from mc.gen import messages as G
from mc.props import router_common as R

LEVEL = "model_checking"
ASSUMPTIONS = [
    "universe: devices A, B + catch-all; 2 (quick) / 3 (thorough) clients; double registration excluded (I-6)",
    "delivery order among endpoints is not constrained (multisets compared)",
]
# enableBLOB is not a self-loop (it changes the policy): it is the structural event "enable"
KINDS = [k for k in G.ALL_TAGS if G.KINDS[k].origin in ("client", "both")]
# the same kinds as they may arrive over the wire with an extra attribute that is named like one of the library's flags
KINDS += ["newTextVector+from_device", "getProperties+from_client-empty", "newSwitchVector+from_device-empty", "getProperties+from_device-empty", "pingReply+from_device"]
# client writes without child elements: what a message IS does not depend on how many elements it lists
KINDS += ["newTextVector~0", "newBLOBVector~0"]
NSH = 16


def shards(tier, seed):
    return [(tier, i) for i in range(NSH)] + [(tier, "reentrant")]


def reentrant_scenarios(res, sig):
    """a device that, while it is being handed a client's getProperties, submits a getProperties of its own through
    its snooping client (as Driver.snoop_device does) - with equal or different content.  Both messages must be
    routed by the rules, whatever is 'in flight'."""
    import indi.message as M
    from indi.routing import Client, Device, Router

    for outer_dev, nested_dev, nclients, equal in [(o, n, k, e) for o in (None, "A") for n in (None, "A", "B") for k in (1, 2) for e in (True, False)]:
        router = Router()
        log = []

        class RecClient(Client):
            def __init__(self, name):
                self.name = name

            def message_from_device(self, message):
                log.append(("c", self.name, id(message)))

        class RecDev(Device):
            def __init__(self, name, snoop=None):
                self.name, self.snoop, self.done = name, snoop, False

            def accepts(self, device):
                return device is None or device == self.name

            def message_from_client(self, message):
                log.append(("d", self.name, id(message)))
                if self.snoop is not None and not self.done and isinstance(message, M.GetProperties):
                    self.done = True
                    kw = dict(version="1.7", device=nested_dev) if not equal else dict(version="1.7", device=outer_dev)
                    nested.append(M.GetProperties(**kw))
                    router.process_message(nested[0], sender=self.snoop)

        nested = []
        S = RecClient("S")
        devA, devB = RecDev("A", snoop=S), RecDev("B")
        clients = [RecClient("c%d" % i) for i in range(nclients)]
        for d in (devA, devB):
            router.register_device(d)
        for c in clients + [S]:
            router.register_client(c)
        outer = M.GetProperties(version="1.7", device=outer_dev)
        exc = None
        try:
            router.process_message(outer, sender=clients[0])
        except Exception as e:  # noqa
            exc = e
        res["transitions"] += 1
        res["sends"] += 2
        ndev = outer_dev if equal else nested_dev
        want = []
        for d in (devA, devB):
            if d.accepts(outer_dev):
                want.append(("d", d.name, "outer"))
        for c in clients[1:] + [S]:
            want.append(("c", c.name, "outer"))
        if devA.accepts(outer_dev):  # the re-entrant device was reached: it sends its own request
            for d in (devA, devB):
                if d.accepts(ndev):
                    want.append(("d", d.name, "nested"))
            for c in clients:
                want.append(("c", c.name, "nested"))
        got = [(k, n, "outer" if mid == id(outer) else "nested") for k, n, mid in log]
        rep = {"kind": "reentrant", "outer": outer_dev, "nested": nested_dev, "nclients": nclients, "equal": equal}
        fails = []
        if exc is not None:
            from mc import lib

            fails.append(("raises", "reentrant," + lib.exc_site(exc), repr(exc)))
        elif sorted(got) != sorted(want):
            missing = [w for w in want if w not in got]
            why = "nested-dropped" if any(w[2] == "nested" for w in missing) else ("outer-dropped" if missing else "extra")
            fails.append(("reentrant-delivery", "content=%s,%s" % ("equal" if equal else "different", why), "outer %r nested %r: deliveries %r, expected %r" % (outer_dev, ndev, sorted(got), sorted(want))))
        for clause, disc, what in fails:
            key = (clause, disc)
            if key in sig:
                sig[key]["count"] += 1
            else:
                sig[key] = {"clause": clause, "disc": disc, "what": what, "count": 1, "replay": rep}


def real_endpoint_scenarios(res, sig):
    """the client kinds the library itself provides as ORIGINATORS, used through their own sending path: the snooping
    client a driver owns (Driver.snooping_client), a stand-alone SnoopingClient, and TCP server connections fed from
    the wire.  Every client-originated kind x device name x originator; deliveries are recorded at real Driver
    instances (accepts() real) and at every registered client."""
    import indi.message as M
    from indi.device.snoop import SnoopingClient
    from indi.routing import Client, Router

    from mc.gen import drivers as D

    def note(clause, disc, what, rep):
        key = (clause, disc)
        if key in sig:
            sig[key]["count"] += 1
        else:
            sig[key] = {"clause": clause, "disc": disc, "what": what, "count": 1, "replay": rep}

    kinds = [k for k in G.ALL_TAGS if G.KINDS[k].origin in ("client", "both")]
    for kind in kinds:
        for addr in R.ADDR:
            msg = R.msg_of(kind, addr)
            if msg is None:
                continue
            for origin in ("snoop-of-A", "snoop-of-B", "standalone-snoop"):
                router = Router()
                log = []
                devs = {}
                for name in R.DEVNAMES:
                    if name not in R._DEV_CLASSES:
                        spec = dict(name=name, groups=[dict(attr="g", name="G", vectors=[dict(attr="t", kind="text", name="T", elements=[dict(attr="a", name="a", default="x")])])])
                        R._DEV_CLASSES[name] = D.build_class(spec)[0]
                    dev = R._DEV_CLASSES[name](router=router)
                    dev.message_from_client = lambda message, name=name: log.append(("d", name, message))
                    devs[name] = dev
                # the library's own catch-all device: the Proxy driver accepts every device name
                from indi.device.proxy import Proxy

                px = type("PX", (Proxy,), {"name": "PX", "address": "127.0.0.1"})(router=router)
                px.message_from_client = lambda message: log.append(("d", "PX", message))

                class Rec(Client):
                    def message_from_device(self, message):
                        log.append(("c", "R", message))

                rec = Rec()
                router.register_client(rec)
                snoops = {"snoop-of-A": devs["A"].snooping_client, "snoop-of-B": devs["B"].snooping_client, "standalone-snoop": SnoopingClient(router)}
                router.register_client(snoops["standalone-snoop"])
                for sn, sc in snoops.items():
                    sc.message_from_device = lambda message, sn=sn: log.append(("c", sn, message))
                log.clear()
                sender = snoops[origin]
                exc = None
                try:
                    sender.send_message(msg)
                except Exception as e:  # noqa
                    exc = e
                res["transitions"] += 1
                res["sends"] += 1
                rep = {"kind": "real-endpoints"}
                d = "kind=%s,origin=%s" % (kind, "owned-snooping-client" if origin != "standalone-snoop" else origin)
                if exc is not None:
                    from mc import lib

                    note("raises", d + "," + lib.exc_site(exc), "%s %r from %s: %r" % (kind, addr, origin, exc), rep)
                    continue
                got_d = sorted(n for k, n, m in log if k == "d")
                got_c = sorted(n for k, n, m in log if k == "c")
                res["deliveries"] += len(log)
                want_d = sorted([n for n in R.DEVNAMES if addr is None or addr == n] + ["PX"])
                if kind == "getProperties":
                    want_c = sorted(["R"] + [sn for sn in snoops if sn != origin])
                else:
                    want_c = []
                res["nondeliveries"] += (len(R.DEVNAMES) + 5) - len(log)
                if got_d != want_d:
                    why = "missing" if len(got_d) < len(want_d) else "extra-or-duplicate"
                    note("device-delivery", d + "," + why, "%s device=%r from %s: devices got %r, expected %r" % (kind, addr, origin, got_d, want_d), rep)
                if origin in got_c:
                    note("relay-to-sender", d, "%s device=%r from %s: handed back to its sender" % (kind, addr, origin), rep)
                elif got_c != want_c:
                    note("forwarded-to-clients" if kind != "getProperties" else "relay-set", d, "%s device=%r from %s: clients got %r, expected %r" % (kind, addr, origin, got_c, want_c), rep)
                if kind == "enableBLOB" and addr:
                    pol = router.blob_routing.get(sender, {}).get(addr)
                    if str(pol) != str(msg.value):
                        note("policy-state", d, "enableBLOB %r for %r from %s: recorded policy %r" % (msg.value, addr, origin, pol), rep)
    wire_scenarios(res, note)
    closing_connection_scenarios(res, note)
    fault_history_scenarios(res, note)


def wire_scenarios(res, note):
    """two TCP connections of a server (created as the server creates them): connection 1's request arrives in two
    reads, connection 2's whole request in between (every k-th cut, both orders of the last two reads).  Each request
    must reach the device once and be relayed to the OTHER connection only."""
    from indi.routing import Device, Router
    from indi.transport.server.tcp import ConnectionHandler as ServerH

    from mc.core import vloop as V

    m1 = b'<getProperties version="1.7" device="A" name="ONE"/>'
    m2 = b'<getProperties version="1.7" device="A" name="TWO"/>'
    for cut in range(1, len(m1), 4):
        for order in ((0, 1, 0), (0, 0, 1), (1, 0, 0)):
            loop = V.VLoop().install()
            try:
                got = []
                router = Router()

                class Rec(Device):
                    def accepts(self, device):
                        return True

                    def message_from_client(self, message):
                        got.append(message.name)

                router.register_device(Rec())
                hf = ServerH.handler(router)
                eps = [V.Endpoint(loop, "c1"), V.Endpoint(loop, "c2")]
                tasks = [loop.create_task(hf(ep.reader, ep.writer)) for ep in eps]
                loop.quiesce()
                pieces = [[m1[:cut], m1[cut:]], [m2]]
                nxt = [0, 0]
                for who in order:
                    eps[who].feed(pieces[who][nxt[who]])
                    nxt[who] += 1
                    loop.quiesce()
                res["transitions"] += 3
                res["sends"] += 2
                w1, w2 = eps[0].written(), eps[1].written()
                rep = {"kind": "real-endpoints"}
                d = "transport=tcp,two-connections"
                if sorted(got) != ["ONE", "TWO"]:
                    note("device-delivery", d, "cut %d order %r: device got %r, expected one ONE and one TWO" % (cut, order, got), rep)
                elif w1.count(b'name="TWO"') != 1 or w1.count(b'name="ONE"') != 0 or w2.count(b'name="ONE"') != 1 or w2.count(b'name="TWO"') != 0:
                    note("relay-set", d, "cut %d order %r: connection 1 was sent %r, connection 2 %r" % (cut, order, w1, w2), rep)
                if any(t.done() for t in tasks):
                    note("raises", d + ",handler-ended", "a connection handler ended", rep)
            finally:
                loop.teardown()
                del ServerH.connections[:]


def closing_connection_scenarios(res, note):
    """three TCP connections; one of them is on its way out (its transport is already closing, the server has not
    unregistered it yet) while another one's request is relayed: whatever that connection does about itself, the
    request reaches the device once and every OTHER healthy connection once - for every position of the dying one and
    every sender"""
    from indi.routing import Device, Router
    from indi.transport.server.tcp import ConnectionHandler as ServerH

    from mc.core import vloop as V

    for dying in (0, 1, 2):
        for sender in (0, 1, 2):
            if sender == dying:
                continue
            loop = V.VLoop().install()
            try:
                got = []
                router = Router()

                class Rec(Device):
                    def accepts(self, device):
                        return True

                    def message_from_client(self, message):
                        got.append(message.name)

                router.register_device(Rec())
                hf = ServerH.handler(router)
                eps = [V.Endpoint(loop, "c%d" % i) for i in range(3)]
                tasks = [loop.create_task(hf(ep.reader, ep.writer)) for ep in eps]
                loop.quiesce()
                eps[dying].transport.closing = True  # is_closing() is true; nothing has been read from it yet
                eps[sender].feed(b'<getProperties version="1.7" device="A" name="REQ"/>')
                loop.quiesce()
                res["transitions"] += 1
                res["sends"] += 1
                rep = {"kind": "real-endpoints"}
                d = "transport=tcp,one-connection-closing"
                other = [i for i in range(3) if i not in (dying, sender)][0]
                if got != ["REQ"]:
                    note("device-delivery", d, "dying %d sender %d: device got %r" % (dying, sender, got), rep)
                if eps[other].written().count(b'name="REQ"') != 1:
                    note("relay-set", d, "dying %d sender %d: the healthy connection %d was sent the request %d times" % (dying, sender, other, eps[other].written().count(b'name="REQ"')), rep)
                if eps[sender].written().count(b'name="REQ"') != 0:
                    note("relay-to-sender", d, "dying %d sender %d: the request came back to its sender" % (dying, sender), rep)
            finally:
                loop.teardown()
                del ServerH.connections[:]


def fault_history_scenarios(res, note):
    """histories with FAULTS: an endpoint whose handler raises (the exception escapes to the caller of the router, as it
    does for a failing device) k times in a row, k = 1..12, and afterwards an ordinary client message: it is still handed
    to every accepting device exactly once, whatever the router remembers about the failures"""
    import indi.message as M
    from indi.message import one_parts
    from indi.routing import Client, Device, Router

    for k in (1, 2, 5, 9, 10, 11, 12):
        for faulty in ("device", "client"):
            router = Router()
            got = []

            class Good(Device):
                def accepts(self, device):
                    return device in (None, "A")

                def message_from_client(self, message):
                    got.append(type(message).__name__)

            class BadDev(Device):
                def accepts(self, device):
                    return device == "BAD"

                def message_from_client(self, message):
                    raise RuntimeError("device failure")

            class BadClient(Client):
                def message_from_device(self, message):
                    raise RuntimeError("client failure")

            class Sender(Client):
                def message_from_device(self, message):
                    pass

            router.register_device(Good())
            router.register_device(BadDev())
            snd = Sender()
            router.register_client(snd)
            if faulty == "client":
                router.register_client(BadClient())
            if faulty == "client" and k == 1:
                # the faulty delivery itself: a request that is also relayed to a client whose handler raises is still
                # handed to every accepting device exactly once
                for dname in ("A", None):
                    del got[:]
                    try:
                        router.process_message(M.GetProperties(version="1.7", device=dname), sender=snd)
                    except RuntimeError:
                        pass
                    res["transitions"] += 1
                    res["sends"] += 1
                    if got != ["GetProperties"]:
                        note("device-delivery", "while-a-client-fails", "getProperties device=%r relayed to a failing client: device A got %r" % (dname, got), {"kind": "real-endpoints"})
            escaped = 0
            for _ in range(k):
                try:
                    if faulty == "device":
                        router.process_message(M.GetProperties(version="1.7", device="BAD"), sender=snd)
                    else:
                        router.process_message(M.GetProperties(version="1.7", device="NOBODY"), sender=snd)  # relayed to the failing client
                except RuntimeError:
                    escaped += 1
            del got[:]
            exc = None
            try:
                router.process_message(M.NewTextVector(device="A", name="T", children=[one_parts.OneText(name="a", value="x")]), sender=snd)
            except Exception as e:  # noqa
                exc = e
            res["transitions"] += k + 1
            res["sends"] += k + 1
            if exc is not None or got != ["NewTextVector"]:
                note("device-delivery", "after-%s-faults" % faulty, "after %d failing deliveries (%d escaped): device A got %r (%r)" % (k, escaped, got, exc), {"kind": "real-endpoints"})


def check(model, ev, got, exc, exp):
    from mc import lib

    op = ev[0]
    if exc is not None:
        kind = ev[1] if op == "send" else op
        return [("raises", "kind=%s,%s" % (kind, lib.exc_site(exc)), "%r: %r" % (ev, exc))]
    to_dev, to_cli = exp
    gd = sorted(i for k, i in got if k == "d")
    gc = sorted(i for k, i in got if k == "c")
    fails = []
    kind = ev[1] if op == "send" else ("enableBLOB" if op == "enable" else op)
    base_kind = R.base_kind(kind)
    if gd != sorted(to_dev):
        sender = ev[3] if op == "send" else ("c", ev[1]) if op == "enable" else None
        why = "to-sender" if sender and sender[0] == "d" and sender[1] in gd else ("missing" if len(gd) < len(to_dev) else "extra-or-duplicate")
        fails.append(("device-delivery", "kind=%s,%s" % (kind, why), "%r: devices got %r, expected %r" % (ev, gd, sorted(to_dev))))
    if op == "send" and base_kind != "getProperties":
        if gc:
            fails.append(("forwarded-to-clients", "kind=%s" % kind, "%r: clients got %r, expected none" % (ev, gc)))
    elif op == "send":
        sender = ev[3]
        if sender and sender[0] == "c" and sender[1] in gc:
            fails.append(("relay-to-sender", "kind=getProperties", "%r: relayed back to its sender" % (ev,)))
        if len(set(gc)) != len(gc):
            fails.append(("relay-duplicate", "kind=getProperties", "%r: clients got %r" % (ev, gc)))
        if not set(gc) <= set(model.clients):
            fails.append(("relay-to-unregistered", "kind=getProperties", "%r: clients got %r" % (ev, gc)))
    elif op == "enable" and gc:
        fails.append(("forwarded-to-clients", "kind=enableBLOB", "%r: clients got %r" % (ev, gc)))
    return fails


def run_shard(shard):
    tier, idx = shard
    if idx == "reentrant":
        res = {"capped": 0, "states": 0, "transitions": 0, "sends": 0, "deliveries": 0, "nondeliveries": 0, "violations": [], "samples": [], "counters": {}}
        sig = {}
        reentrant_scenarios(res, sig)
        real_endpoint_scenarios(res, sig)
        res["violations"] = list(sig.values())
        return res
    n = 2 if tier == "quick" else 3
    st = R.explore(n, KINDS, check, idx, NSH, primed=True)
    return pack(st, n, idx)


def pack(st, n, idx):
    res = {"capped": st.get("capped", 0), "states": st["states"] if idx == 0 else 0, "transitions": st["transitions"], "sends": st["sends"], "deliveries": st["deliveries"], "nondeliveries": st["nondeliveries"], "violations": [], "samples": [], "counters": {}}
    sig = {}
    for fails, path in st["violations"]:
        for clause, disc, what in fails:
            key = (clause, disc)
            if key not in sig:
                sig[key] = {"clause": clause, "disc": disc, "what": what, "count": st.get("sigcount", {}).get(key, 1), "replay": {"nclients": n, "path": path}}
    res["violations"] = list(sig.values())
    if idx == 0:
        res["samples"].append({"history": [["regdev", 0], ["regcli", 0], ["enable", 0, "A", "Also"], ["send", "getProperties", "A", ["c", 0]]]})
    return res


def finish(tier, seed, m):
    cov = {
        "states": m["states"],
        "transitions": m["transitions"],
        "traces_validated_against_impl": m["transitions"],
        "send_self_loops": m["sends"],
        "deliveries_observed": m["deliveries"],
        "non_deliveries_observed": m["nondeliveries"],
        "samples": m["samples"][:2],
        "exhaustive": not m.get("capped", 0),
        "explanation": "complete reachable graph (fixpoint); every transition is executed on the real Router",
    }
    errs = []
    if m["deliveries"] < 100 or m["nondeliveries"] < 100:
        errs.append("deliveries / non-deliveries barely observed")
    cov["_vacuity_errors"] = errs
    return cov


def _t(x):
    if isinstance(x, list):
        return tuple(_t(i) for i in x)
    return x


def replay(rep, chk=None):
    if rep.get("kind") == "real-endpoints":
        res = {"transitions": 0, "sends": 0, "deliveries": 0, "nondeliveries": 0}
        sig = {}
        real_endpoint_scenarios(res, sig)
        return [{"clause": v["clause"], "disc": v["disc"], "what": v["what"]} for v in sig.values()]
    if rep.get("kind") == "reentrant":
        res = {"transitions": 0, "sends": 0}
        sig = {}
        reentrant_scenarios(res, sig)
        return [{"clause": v["clause"], "disc": v["disc"], "what": v["what"]} for v in sig.values()]
    chk = chk or check
    path = [_t(e) for e in rep["path"]]
    s, m = R.build(path[:-1], rep["nclients"])
    ev = path[-1]
    mm = m.copy()
    exp = mm.step(ev)
    got, exc = s.apply(ev)
    return [{"clause": c, "disc": d, "what": w} for c, d, w in chk(m, ev, got, exc, exp)]
