"""C04 - client messages reach exactly the addressed devices.

Explicit-state model checking of the real Router: the complete reachable graph of
(registered devices incl. a catch-all, registered clients, BLOB policies) for a bounded
universe is explored to fixpoint; in EVERY state every client-originated message kind x
device name {A, B, none, unknown} x sender is sent and the deliveries compared with a
reference model.
"""
from mc.gen import messages as G
from mc.props import router_common as R

LEVEL = "model_checking"
ASSUMPTIONS = [
    "universe: devices A, B + catch-all; 2 (quick) / 3 (thorough) clients; double registration excluded (I-6)",
    "delivery order among endpoints is not constrained (multisets compared)",
]
# enableBLOB is not a self-loop (it changes the policy): it is the structural event "enable"
KINDS = [k for k in G.ALL_TAGS if G.KINDS[k].origin in ("client", "both")]
NSH = 16


def shards(tier, seed):
    return [(tier, i) for i in range(NSH)]


def check(model, ev, got, exc, exp):
    from mc import lib

    op = ev[0]
    if exc is not None:
        kind = ev[1] if op == "send" else op
        return [("raises", "kind=%s,%s" % (kind, lib.exc_site(exc)), "%r: %r" % (ev, exc))]
    to_dev, to_cli = exp
    gd = sorted(i for k, i in got if k == "d")
    gc = sorted(i for k, i in got if k == "c")
    fails = []
    kind = ev[1] if op == "send" else ("enableBLOB" if op == "enable" else op)
    if gd != sorted(to_dev):
        sender = ev[3] if op == "send" else ("c", ev[1]) if op == "enable" else None
        why = "to-sender" if sender and sender[0] == "d" and sender[1] in gd else ("missing" if len(gd) < len(to_dev) else "extra-or-duplicate")
        fails.append(("device-delivery", "kind=%s,%s" % (kind, why), "%r: devices got %r, expected %r" % (ev, gd, sorted(to_dev))))
    if op == "send" and kind != "getProperties":
        if gc:
            fails.append(("forwarded-to-clients", "kind=%s" % kind, "%r: clients got %r, expected none" % (ev, gc)))
    elif op == "send":
        sender = ev[3]
        if sender and sender[0] == "c" and sender[1] in gc:
            fails.append(("relay-to-sender", "kind=getProperties", "%r: relayed back to its sender" % (ev,)))
        if len(set(gc)) != len(gc):
            fails.append(("relay-duplicate", "kind=getProperties", "%r: clients got %r" % (ev, gc)))
        if not set(gc) <= set(model.clients):
            fails.append(("relay-to-unregistered", "kind=getProperties", "%r: clients got %r" % (ev, gc)))
    elif op == "enable" and gc:
        fails.append(("forwarded-to-clients", "kind=enableBLOB", "%r: clients got %r" % (ev, gc)))
    return fails


def run_shard(shard):
    tier, idx = shard
    n = 2 if tier == "quick" else 3
    st = R.explore(n, KINDS, check, idx, NSH)
    return pack(st, n, idx)


def pack(st, n, idx):
    res = {"capped": st.get("capped", 0), "states": st["states"] if idx == 0 else 0, "transitions": st["transitions"], "sends": st["sends"], "deliveries": st["deliveries"], "nondeliveries": st["nondeliveries"], "violations": [], "samples": [], "counters": {}}
    sig = {}
    for fails, path in st["violations"]:
        for clause, disc, what in fails:
            key = (clause, disc)
            if key not in sig:
                sig[key] = {"clause": clause, "disc": disc, "what": what, "count": st.get("sigcount", {}).get(key, 1), "replay": {"nclients": n, "path": path}}
    res["violations"] = list(sig.values())
    if idx == 0:
        res["samples"].append({"history": [["regdev", 0], ["regcli", 0], ["enable", 0, "A", "Also"], ["send", "getProperties", "A", ["c", 0]]]})
    return res


def finish(tier, seed, m):
    cov = {
        "states": m["states"],
        "transitions": m["transitions"],
        "traces_validated_against_impl": m["transitions"],
        "send_self_loops": m["sends"],
        "deliveries_observed": m["deliveries"],
        "non_deliveries_observed": m["nondeliveries"],
        "samples": m["samples"][:2],
        "exhaustive": not m.get("capped", 0),
        "explanation": "complete reachable graph (fixpoint); every transition is executed on the real Router",
    }
    errs = []
    if m["deliveries"] < 100 or m["nondeliveries"] < 100:
        errs.append("deliveries / non-deliveries barely observed")
    cov["_vacuity_errors"] = errs
    return cov


def _t(x):
    if isinstance(x, list):
        return tuple(_t(i) for i in x)
    return x


def replay(rep, chk=None):
    chk = chk or check
    path = [_t(e) for e in rep["path"]]
    s, m = R.build(path[:-1], rep["nclients"])
    ev = path[-1]
    mm = m.copy()
    exp = mm.step(ev)
    got, exc = s.apply(ev)
    return [{"clause": c, "disc": d, "what": w} for c, d, w in chk(m, ev, got, exc, exp)]
