"""C04 - client messages reach exactly the addressed devices.

Explicit-state model checking of the real Router: the complete reachable graph of
(registered devices incl. a catch-all, registered clients, BLOB policies) for a bounded
universe is explored to fixpoint; in EVERY state every client-originated message kind x
device name {A, B, none, unknown} x sender is sent and the deliveries compared with a
reference model.
"""
from mc.gen import messages as G
from mc.props import router_common as R

LEVEL = "model_checking"
ASSUMPTIONS = [
    "universe: devices A, B + catch-all; 2 (quick) / 3 (thorough) clients; double registration excluded (I-6)",
    "delivery order among endpoints is not constrained (multisets compared)",
]
# enableBLOB is not a self-loop (it changes the policy): it is the structural event "enable"
KINDS = [k for k in G.ALL_TAGS if G.KINDS[k].origin in ("client", "both")]
# the same kinds as they may arrive over the wire with an extra attribute that is named like one of the library's flags
KINDS += ["newTextVector+from_device", "getProperties+from_client-empty", "newSwitchVector+from_device-empty", "getProperties+from_device-empty", "pingReply+from_device"]
NSH = 16


def shards(tier, seed):
    return [(tier, i) for i in range(NSH)] + [(tier, "reentrant")]


def reentrant_scenarios(res, sig):
    """a device that, while it is being handed a client's getProperties, submits a getProperties of its own through
    its snooping client (as Driver.snoop_device does) - with equal or different content.  Both messages must be
    routed by the rules, whatever is 'in flight'."""
    import indi.message as M
    from indi.routing import Client, Device, Router

    for outer_dev, nested_dev, nclients, equal in [(o, n, k, e) for o in (None, "A") for n in (None, "A", "B") for k in (1, 2) for e in (True, False)]:
        router = Router()
        log = []

        class RecClient(Client):
            def __init__(self, name):
                self.name = name

            def message_from_device(self, message):
                log.append(("c", self.name, id(message)))

        class RecDev(Device):
            def __init__(self, name, snoop=None):
                self.name, self.snoop, self.done = name, snoop, False

            def accepts(self, device):
                return device is None or device == self.name

            def message_from_client(self, message):
                log.append(("d", self.name, id(message)))
                if self.snoop is not None and not self.done and isinstance(message, M.GetProperties):
                    self.done = True
                    kw = dict(version="1.7", device=nested_dev) if not equal else dict(version="1.7", device=outer_dev)
                    nested.append(M.GetProperties(**kw))
                    router.process_message(nested[0], sender=self.snoop)

        nested = []
        S = RecClient("S")
        devA, devB = RecDev("A", snoop=S), RecDev("B")
        clients = [RecClient("c%d" % i) for i in range(nclients)]
        for d in (devA, devB):
            router.register_device(d)
        for c in clients + [S]:
            router.register_client(c)
        outer = M.GetProperties(version="1.7", device=outer_dev)
        exc = None
        try:
            router.process_message(outer, sender=clients[0])
        except Exception as e:  # noqa
            exc = e
        res["transitions"] += 1
        res["sends"] += 2
        ndev = outer_dev if equal else nested_dev
        want = []
        for d in (devA, devB):
            if d.accepts(outer_dev):
                want.append(("d", d.name, "outer"))
        for c in clients[1:] + [S]:
            want.append(("c", c.name, "outer"))
        if devA.accepts(outer_dev):  # the re-entrant device was reached: it sends its own request
            for d in (devA, devB):
                if d.accepts(ndev):
                    want.append(("d", d.name, "nested"))
            for c in clients:
                want.append(("c", c.name, "nested"))
        got = [(k, n, "outer" if mid == id(outer) else "nested") for k, n, mid in log]
        rep = {"kind": "reentrant", "outer": outer_dev, "nested": nested_dev, "nclients": nclients, "equal": equal}
        fails = []
        if exc is not None:
            from mc import lib

            fails.append(("raises", "reentrant," + lib.exc_site(exc), repr(exc)))
        elif sorted(got) != sorted(want):
            missing = [w for w in want if w not in got]
            why = "nested-dropped" if any(w[2] == "nested" for w in missing) else ("outer-dropped" if missing else "extra")
            fails.append(("reentrant-delivery", "content=%s,%s" % ("equal" if equal else "different", why), "outer %r nested %r: deliveries %r, expected %r" % (outer_dev, ndev, sorted(got), sorted(want))))
        for clause, disc, what in fails:
            key = (clause, disc)
            if key in sig:
                sig[key]["count"] += 1
            else:
                sig[key] = {"clause": clause, "disc": disc, "what": what, "count": 1, "replay": rep}


def check(model, ev, got, exc, exp):
    from mc import lib

    op = ev[0]
    if exc is not None:
        kind = ev[1] if op == "send" else op
        return [("raises", "kind=%s,%s" % (kind, lib.exc_site(exc)), "%r: %r" % (ev, exc))]
    to_dev, to_cli = exp
    gd = sorted(i for k, i in got if k == "d")
    gc = sorted(i for k, i in got if k == "c")
    fails = []
    kind = ev[1] if op == "send" else ("enableBLOB" if op == "enable" else op)
    base_kind = kind.split("+")[0]
    if gd != sorted(to_dev):
        sender = ev[3] if op == "send" else ("c", ev[1]) if op == "enable" else None
        why = "to-sender" if sender and sender[0] == "d" and sender[1] in gd else ("missing" if len(gd) < len(to_dev) else "extra-or-duplicate")
        fails.append(("device-delivery", "kind=%s,%s" % (kind, why), "%r: devices got %r, expected %r" % (ev, gd, sorted(to_dev))))
    if op == "send" and base_kind != "getProperties":
        if gc:
            fails.append(("forwarded-to-clients", "kind=%s" % kind, "%r: clients got %r, expected none" % (ev, gc)))
    elif op == "send":
        sender = ev[3]
        if sender and sender[0] == "c" and sender[1] in gc:
            fails.append(("relay-to-sender", "kind=getProperties", "%r: relayed back to its sender" % (ev,)))
        if len(set(gc)) != len(gc):
            fails.append(("relay-duplicate", "kind=getProperties", "%r: clients got %r" % (ev, gc)))
        if not set(gc) <= set(model.clients):
            fails.append(("relay-to-unregistered", "kind=getProperties", "%r: clients got %r" % (ev, gc)))
    elif op == "enable" and gc:
        fails.append(("forwarded-to-clients", "kind=enableBLOB", "%r: clients got %r" % (ev, gc)))
    return fails


def run_shard(shard):
    tier, idx = shard
    if idx == "reentrant":
        res = {"capped": 0, "states": 0, "transitions": 0, "sends": 0, "deliveries": 0, "nondeliveries": 0, "violations": [], "samples": [], "counters": {}}
        sig = {}
        reentrant_scenarios(res, sig)
        res["violations"] = list(sig.values())
        return res
    n = 2 if tier == "quick" else 3
    st = R.explore(n, KINDS, check, idx, NSH)
    return pack(st, n, idx)


def pack(st, n, idx):
    res = {"capped": st.get("capped", 0), "states": st["states"] if idx == 0 else 0, "transitions": st["transitions"], "sends": st["sends"], "deliveries": st["deliveries"], "nondeliveries": st["nondeliveries"], "violations": [], "samples": [], "counters": {}}
    sig = {}
    for fails, path in st["violations"]:
        for clause, disc, what in fails:
            key = (clause, disc)
            if key not in sig:
                sig[key] = {"clause": clause, "disc": disc, "what": what, "count": st.get("sigcount", {}).get(key, 1), "replay": {"nclients": n, "path": path}}
    res["violations"] = list(sig.values())
    if idx == 0:
        res["samples"].append({"history": [["regdev", 0], ["regcli", 0], ["enable", 0, "A", "Also"], ["send", "getProperties", "A", ["c", 0]]]})
    return res


def finish(tier, seed, m):
    cov = {
        "states": m["states"],
        "transitions": m["transitions"],
        "traces_validated_against_impl": m["transitions"],
        "send_self_loops": m["sends"],
        "deliveries_observed": m["deliveries"],
        "non_deliveries_observed": m["nondeliveries"],
        "samples": m["samples"][:2],
        "exhaustive": not m.get("capped", 0),
        "explanation": "complete reachable graph (fixpoint); every transition is executed on the real Router",
    }
    errs = []
    if m["deliveries"] < 100 or m["nondeliveries"] < 100:
        errs.append("deliveries / non-deliveries barely observed")
    cov["_vacuity_errors"] = errs
    return cov


def _t(x):
    if isinstance(x, list):
        return tuple(_t(i) for i in x)
    return x


def replay(rep, chk=None):
    if rep.get("kind") == "reentrant":
        res = {"transitions": 0, "sends": 0}
        sig = {}
        reentrant_scenarios(res, sig)
        return [{"clause": v["clause"], "disc": v["disc"], "what": v["what"]} for v in sig.values()]
    chk = chk or check
    path = [_t(e) for e in rep["path"]]
    s, m = R.build(path[:-1], rep["nclients"])
    ev = path[-1]
    mm = m.copy()
    exp = mm.step(ev)
    got, exc = s.apply(ev)
    return [{"clause": c, "disc": d, "what": w} for c, d, w in chk(m, ev, got, exc, exp)]
