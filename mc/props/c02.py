"""C02 - stream framing is lossless, ordered, prompt and independent of fragmentation.

Explicit-state model checking of the real Buffer: for every corpus stream and threshold,
the complete all-partitions graph (mc.core.bufgraph) is explored and the promptness /
losslessness oracle is evaluated on EVERY edge.
"""
from mc.core import bufgraph as BG
from mc.gen import messages as G
from mc.ref import xmlview as X

LEVEL = "model_checking"
ASSUMPTIONS = [
    "corpus streams are concatenations of 1-3 generated messages (every kind, every spelling axis); longer streams are not explored",
    "Buffer.process is deterministic and its callback does not touch the buffer (lasso detector)",
    "state identity = complete vars() snapshot of the Buffer object; states are re-entered by deep copy (cross-checked against unmerged path enumeration on short streams)",
]
SHARD_LIMIT = {"quick": 900, "thorough": 7200}


def element_span(text, sp):
    """(start, end_exclusive) of the element inside one serialised message text."""
    start = len(G.DECLS[sp.decl])
    end = len(text.rstrip("\n"))
    return start, end


def vals(salt):
    F = G.FREE
    return F[salt % len(F)]


def make_desc(tag, nchildren, salt, rich):
    k = G.KINDS[tag]
    optn = tuple(n for i, (n, _) in enumerate(k.opt) if (salt >> i) & 1 or rich)
    co = None
    if k.child:
        pon = tuple(n for n, _ in G.PARTS[k.child].opt)
        co = [pon if (salt + c) % 2 else () for c in range(nchildren)]
    d = G.skeleton(tag, optn, nchildren if k.child else 0, co, salt)
    # sprinkle lexical classes over the free slots (one per slot, rotating)
    j = salt
    for path, kind in list(G.slots(d)):
        if kind == G.K_FREE:
            name_slot = path[0] == "ca" and d[3][path[1]][1][path[2]][0] == "name"
            if not name_slot and (j % 3 == 0 or rich):
                d = G.with_slot(d, path, vals(j))
            j += 1
    return d


def corpus(tier, seed):
    """list of (stream_text, expected=[(end_exclusive, view, desc)], label)"""
    tags = list(G.ALL_TAGS)
    sps = list(G.spellings("quick"))
    out = []
    nstreams = 30 if tier == "quick" else 200
    for j in range(nstreams):
        nmsg = 1 + j % 3
        sp = sps[(j + seed) % len(sps)] if tier == "quick" else None
        text = ""
        exp = []
        lab = []
        for mi in range(nmsg):
            tag = tags[(j * 3 + mi * 7 + (j // 21)) % len(tags)]
            nch = (j + mi) % 3 if tier == "quick" else (j + mi) % 4
            salt = j * 5 + mi + seed
            rich = (j % 4 == 3) and tier == "thorough"
            d = make_desc(tag, nch, salt, rich)
            if tier == "thorough":
                allsp = _thorough_spellings()
                sp = allsp[(j * 3 + mi) % len(allsp)]
            t = G.serialise(d, sp)
            s, e = element_span(t, sp)
            if len(text) + len(t) > (330 if tier == "quick" else 560) and mi > 0:
                break
            sep = ("", "\n", " ", "\n\n")[(j + mi) % 4]
            exp.append((len(text) + e, X.view_of_desc(d), d))
            text += t + sep
            lab.append(tag)
        out.append((text, exp, "+".join(lab)))
    out.extend(_short_after_declaration())
    if tier == "thorough":
        out.extend(_special_streams())
    return out


def _short_after_declaration():
    """short messages behind XML declarations / blank residues: the residue that precedes a message is
    longer than the message itself (catches stale scan offsets / cached positions in the buffer)"""
    out = []
    shorts = [("message", (), None, ()), ("pingReply", (("uid", "1"),), None, ()), ("getProperties", (("version", "1.7"),), None, ())]
    k = 0
    for decl in G.DECLS[1:] + ("\n\n   \n", "<!-- a comment -->"):
        for a in shorts:
            b = shorts[(k + 1) % 3]
            k += 1
            ta, tb = G.serialise(a, G.Spelling(empty=k % 3)), G.serialise(b, G.Spelling(empty=(k + 1) % 3))
            text = decl + ta + decl + tb
            e1 = len(decl) + len(ta)
            exp = [(e1, X.view_of_desc(a), a), (e1 + len(decl) + len(tb), X.view_of_desc(b), b)]
            out.append((text, exp, "short-after-residue"))
    # the shortest messages there are, alone in the buffer (after everything before them has been consumed) and last in
    # the stream: nothing that follows could push them out
    msg, ping = ("message", (), None, ()), ("pingRequest", (("uid", "1"),), None, ())
    gp = ("getProperties", (("version", "1.7"),), None, ())
    for seq in ((msg,), (gp, msg), (msg, msg), (ping, msg), (msg, gp)):
        text, exp = "", []
        for d in seq:
            text += G.serialise(d, G.Spelling())
            exp.append((len(text), X.view_of_desc(d), d))
        out.append((text, exp, "shortest-alone"))
    return out


_TS = None


def _thorough_spellings():
    global _TS
    if _TS is None:
        _TS = list(G.spellings("thorough"))
    return _TS


def _special_streams():
    """thorough extras: comments / PIs between messages, long BLOB message (T=None only)."""
    out = []
    d1 = make_desc("setTextVector", 2, 3, True)
    d2 = make_desc("getProperties", 0, 1, False)
    sp = G.Spelling()
    t1, t2 = G.serialise(d1, sp), G.serialise(d2, sp)
    for filler in ("<!-- a comment -->", "<?pi data?>", "\n\n  \n", "<!-- > -->", "junk text & more"):
        text = t1 + filler + t2
        out.append((text, [(len(t1), X.view_of_desc(d1), d1), (len(text), X.view_of_desc(d2), d2)], "special:" + filler[:6]))
    return out


def thresholds(stream_exp, text):
    prev = 0
    longest = 0
    for end, view, d in stream_exp:
        # element length: from its '<' to its end
        start = text.rfind("<" + d[0], prev, end)
        longest = max(longest, end - start)
        prev = end
    fit = longest
    return [("fit", fit), ("2048", 2048), ("None", None)]


def shards(tier, seed):
    c = corpus(tier, seed)
    sh = []
    for si in range(len(c)):
        for tname in ("fit", "2048", "None"):
            sh.append((tier, seed, si, tname))
    sh.append((tier, seed, "selfcheck", None))
    sh.append((tier, seed, "transport", None))
    return sh


def make_check(exp, tname):
    def check_edge(i, nd, k, delivered, buf, exc):
        fails = []
        pos = i + k
        if exc is not None:
            if isinstance(exc, BG.Livelock):
                fails.append(("livelock", "threshold=%s" % tname, "Buffer.process never returns: %s" % exc))
            elif isinstance(exc, BG.Hang):
                fails.append(("hang", "threshold=%s" % tname, str(exc)))
            else:
                from mc import lib

                fails.append(("raises", "threshold=%s,%s" % (tname, lib.exc_site(exc)), repr(exc)))
            return fails
        if any(m is None for m in delivered):
            fails.append(("none-delivered", "threshold=%s" % tname, "callback received None"))
            return fails
        want = [idx for idx in range(nd, len(exp)) if exp[idx][0] <= pos]
        if len(delivered) < len(want):
            fails.append(("late-or-lost", "threshold=%s" % tname, "at pos %d expected messages %s, got %d" % (pos, want, len(delivered))))
        elif len(delivered) > len(want):
            fails.append(("early-or-spurious", "threshold=%s" % tname, "at pos %d expected %d messages, got %d" % (pos, len(want), len(delivered))))
        else:
            for idx, m in zip(want, delivered):
                try:
                    v = X.view_of_msg(m)
                except Exception as e:
                    v = ("unviewable", repr(e))
                if v != exp[idx][1]:
                    fails.append(("content", "threshold=%s" % tname, "message %d: want %r got %r" % (idx, exp[idx][1], v)))
                    break
        return fails

    return check_edge


def run_shard(shard):
    tier, seed, si, tname = shard
    res = {"states": 0, "transitions": 0, "graphs": 0, "violations": [], "samples": [], "counters": {}, "delivering_edges": 0}
    if si == "selfcheck":
        return selfcheck(tier, res)
    if si == "transport":
        return transport_check(tier, res)
    text, exp, label = corpus(tier, seed)[si]
    T = dict(thresholds(exp, text))[tname]
    stats = {"deliv": 0}
    base = make_check(exp, tname)

    def chk(i, nd, k, delivered, buf, exc):
        if delivered:
            stats["deliv"] += 1
        return base(i, nd, k, delivered, buf, exc)

    r = BG.explore(text, T, chk, max_hangs=2, double_append="both" if tier == "thorough" else "last")
    res["states"] = r["states"]
    res["transitions"] = r["transitions"]
    res["graphs"] = 1
    res["delivering_edges"] = stats["deliv"]
    res["chars"] = len(text)
    res["capped"] = 1 if r["capped"] else 0
    sig = {}
    for fails, pieces in r["violations"]:
        for clause, disc, what in fails:
            key = (clause, disc)
            if key in sig:
                sig[key]["count"] += 1
                continue
            sig[key] = {
                "clause": clause,
                "disc": disc,
                "what": "stream %r pieces %r: %s" % (label, [len(p) if isinstance(p, str) else "append-only:%d" % len(p[1]) for p in pieces], what),
                "count": 1,
                "replay": {"stream": text, "T": T, "tname": tname, "pieces": pieces, "expected": [(e, v) for e, v, d in exp]},
            }
    res["violations"] = list(sig.values())
    if si < 2 and tname == "fit":
        res["samples"].append({"stream": text, "threshold": T, "messages": [d[0] for _, _, d in exp], "states": r["states"], "transitions": r["transitions"]})
    return res


def transport_check(tier, res):
    """the transports between the socket and the Buffer (the anchors tcp.py / tty.py): the byte stream is cut at
    EVERY position (and fed byte by byte); the messages handed on must not depend on the cut. Streams carry raw
    UTF-8 and raw ISO-8859-1 characters, which read(1024) may split in the middle of a multi-byte sequence."""
    from indi.routing import Device, Router
    from indi.transport.client.tcp import ConnectionHandler as ClientH
    from indi.transport.server.tcp import ConnectionHandler as ServerH

    from mc.core import vloop as V

    texts = [
        '<?xml version="1.0"?>\n<getProperties version="1.7" device="T\u00e9l\u00e9scope"/><newTextVector device="D" name="N"><oneText name="a">\u00b0 \u2603 caf\u00e9</oneText></newTextVector>\n<getProperties version="1.7"/>',
    ]
    sig = {}
    for text in texts:
        for enc in ("utf-8", "latin-1"):
            data = text.encode(enc, "xmlcharrefreplace")
            feeds = [[data], [bytes([b]) for b in data]] + [[data[:c], data[c:]] for c in range(1, len(data))]
            for side in ("client", "server"):
                for pieces in feeds:
                    loop = V.VLoop().install()
                    try:
                        got = []
                        ep = V.Endpoint(loop, "x")
                        if side == "client":
                            h = ClientH(ep.reader, ep.writer, got.append)
                        else:
                            router = Router()

                            class Rec(Device):
                                def accepts(self, device):
                                    return True

                                def message_from_client(self, message):
                                    got.append(message)

                            router.register_device(Rec())
                            h = ServerH(ep.reader, ep.writer, router)
                        task = loop.create_task(h.wait_for_messages())
                        loop.quiesce()
                        for p in pieces:
                            ep.feed(p)
                            loop.quiesce()
                        res["transitions"] += len(pieces)
                        res["states"] += 1
                        kinds = [type(m).__name__ for m in got]
                        clause = None
                        if task.done():
                            exc = task.exception() if not task.cancelled() else None
                            clause, what = "receive-loop-stopped", "%s handler, %s bytes, pieces %r: %r" % (side, enc, [len(p) for p in pieces][:4], exc)
                        elif kinds != ["GetProperties", "NewTextVector", "GetProperties"]:
                            clause, what = "fragmentation-dependent-delivery", "%s handler, %s bytes, pieces %r: delivered %r" % (side, enc, [len(p) for p in pieces][:4], kinds)
                        if clause:
                            key = (clause, "transport=%s,%s" % (side, enc))
                            if key in sig:
                                sig[key]["count"] += 1
                            else:
                                sig[key] = {"clause": clause, "disc": key[1], "what": what, "count": 1, "replay": {"transport": side, "enc": enc, "pieces": [len(p) for p in pieces]}}
                    finally:
                        loop.teardown()
    # ---- the client's BLOB connection: a message far longer than the default threshold, cut everywhere / read(1024)
    import base64

    import indi.message as M
    from indi.message import one_parts

    raw = bytes((k * 7) % 256 for k in range(2600))
    big = M.SetBLOBVector(device="D", name="B", state="Ok", children=[one_parts.OneBLOB(name="a", size=len(raw), format=".b", value=base64.b64encode(raw).decode())]).to_string()
    small = M.SetTextVector(device="D", name="T", state="Ok", children=[one_parts.OneText(name="a", value="after")]).to_string()
    data = small + big + small
    feeds = [[data], [data[j : j + 1024] for j in range(0, len(data), 1024)], [data[j : j + 7] for j in range(0, len(data), 7)]] + [[data[:c], data[c:]] for c in range(1, len(data), 41)]
    for pieces in feeds:
        loop = V.VLoop().install()
        try:
            got = []
            ep = V.Endpoint(loop, "b")
            h = ClientH(ep.reader, ep.writer, got.append, for_blobs=True)
            task = loop.create_task(h.wait_for_messages())
            loop.quiesce()
            for p in pieces:
                ep.feed(p)
                loop.quiesce()
            res["transitions"] += len(pieces)
            res["states"] += 1
            kinds = [type(m).__name__ for m in got]
            ok = kinds == ["SetTextVector", "SetBLOBVector", "SetTextVector"] and not task.done()
            if ok:
                ok = base64.b64decode(got[1].children[0].value) == raw
            if not ok:
                key = ("fragmentation-dependent-delivery", "transport=client-blob-connection,long-message")
                if key in sig:
                    sig[key]["count"] += 1
                else:
                    sig[key] = {"clause": key[0], "disc": key[1], "what": "BLOB connection (threshold disabled), %d-byte message, pieces %r...: delivered %r, loop ended=%s" % (len(big), [len(p) for p in pieces][:4], kinds, task.done()), "count": 1, "replay": {"transport": "client-blob", "pieces": [len(p) for p in pieces][:8]}}
        finally:
            loop.teardown()
    # ---- the TTY transport reads LINES: streams whose messages span several lines (indented children, one attribute
    # per line, text values with inner newlines, blank lines between messages)
    import io

    from indi.transport.server.tty import ConnectionHandler as TtyH

    ttext = ('<?xml version="1.0"?>\n<getProperties version="1.7"/>\n\n'
             '<newTextVector\n    device="D"\n    name="N">\n  <oneText name="a">first line\nsecond line\n\nfourth line</oneText>\n</newTextVector>\n'
             '   \n<newNumberVector device="D" name="M"><oneNumber name="x">1.5</oneNumber></newNumberVector>\n<getProperties version="1.7" device="D"/>')
    lines = ttext.splitlines(keepends=True)
    loop = V.VLoop().install()
    try:
        got = []
        router = Router()

        class Rec2(Device):
            def accepts(self, device):
                return True

            def message_from_client(self, message):
                got.append(message)

        router.register_device(Rec2())
        src = V.LineSource()
        in_ctl = V.CtlExecutor()
        h = TtyH(router, V.aio_text(src, loop, in_ctl), V.aio_text(io.StringIO(), loop, V.CtlExecutor()))
        task = loop.create_task(h.handle())
        loop.quiesce()
        for ln in lines:
            src.supply(ln)
            for _ in range(50):
                loop.quiesce()
                if len(in_ctl) and src.available():
                    in_ctl.run(0)
                else:
                    break
        loop.quiesce()
        res["transitions"] += len(lines)
        res["states"] += 1
        kinds = [type(m).__name__ for m in got]
        text = got[1].children[0].value if len(got) > 1 and getattr(got[1], "children", None) else None
        if kinds != ["GetProperties", "NewTextVector", "NewNumberVector", "GetProperties"] or text != "first line\nsecond line\n\nfourth line" or task.done():
            sig[("fragmentation-dependent-delivery", "transport=tty,multi-line")] = {"clause": "fragmentation-dependent-delivery", "disc": "transport=tty,multi-line", "count": 1, "what": "TTY: delivered %r, text %r, handler ended=%s" % (kinds, text, task.done()), "replay": {"transport": "tty"}}
    finally:
        loop.teardown()
    multi_connection_check(tier, res, sig)
    read_boundary_check(tier, res, sig)
    res["violations"] = list(sig.values())
    res["counters"]["transport_feeds"] = res["states"]
    return res


def read_boundary_check(tier, res, sig):
    """streams whose messages end exactly on (or one byte around) a boundary of the handlers' 1024-byte reads, followed
    by silence: every message must have been handed on when the last byte has been read, not when more data arrives"""
    from indi.routing import Device, Router
    from indi.transport.client.tcp import ConnectionHandler as ClientH
    from indi.transport.server.tcp import ConnectionHandler as ServerH

    from mc.core import vloop as V

    def stream(total):
        head = b'<getProperties version="1.7" device="D"/>'
        tail = b'<getProperties version="1.7"/>'
        frame = b'<newTextVector device="D" name="N"><oneText name="a">%s</oneText></newTextVector>'
        fill = total - len(head) - len(tail) - (len(frame) - 2)
        return head + frame % (b"x" * fill) + tail

    for side in ("client", "server"):
        for k in (1, 2, 3):
            for delta in (-1, 0, 1):
                data = stream(1024 * k + delta)
                for feed in ("whole", "1024"):
                    pieces = [data] if feed == "whole" else [data[j : j + 1024] for j in range(0, len(data), 1024)]
                    loop = V.VLoop().install()
                    try:
                        got = []
                        ep = V.Endpoint(loop, "x")
                        if side == "client":
                            h = ClientH(ep.reader, ep.writer, got.append)
                        else:
                            router = Router()

                            class Rec(Device):
                                def accepts(self, device):
                                    return True

                                def message_from_client(self, message):
                                    got.append(message)

                            router.register_device(Rec())
                            h = ServerH(ep.reader, ep.writer, router)
                        task = loop.create_task(h.wait_for_messages())
                        loop.quiesce()
                        for p in pieces:
                            ep.feed(p)
                            loop.quiesce()
                        res["transitions"] += len(pieces)
                        res["states"] += 1
                        kinds = [type(m).__name__ for m in got]
                        if kinds != ["GetProperties", "NewTextVector", "GetProperties"] or task.done():
                            key = ("late-delivery", "transport=%s,stream-ends-at-read-boundary%+d" % (side, delta))
                            if key in sig:
                                sig[key]["count"] += 1
                            else:
                                sig[key] = {"clause": key[0], "disc": key[1], "what": "%s handler, %d bytes fed %s, then silence: delivered %r, loop ended=%s" % (side, len(data), feed, kinds, task.done()), "count": 1, "replay": {"transport": side + "-boundary"}}
                    finally:
                        loop.teardown()


def multi_connection_check(tier, res, sig):
    """framing is per connection: two connections of one process (two clients of a server, created the way the
    server creates them; the control and the BLOB connection of a client) receive their streams in two pieces
    each, cut at every k-th position, under EVERY interleaving of the four reads; each connection must deliver
    exactly its own messages, once, in order, whatever the other one has buffered."""
    import itertools

    from indi.routing import Device, Router
    from indi.transport.client.tcp import ConnectionHandler as ClientH
    from indi.transport.server.tcp import ConnectionHandler as ServerH

    from mc.core import vloop as V

    s1 = b'<getProperties version="1.7" device="D1"/><newTextVector device="D1" name="N"><oneText name="a">one</oneText></newTextVector>'
    s2 = b'<newNumberVector device="D2" name="M"><oneNumber name="x">2.5</oneNumber></newNumberVector><getProperties version="1.7" device="D2" name="M"/>'
    want = {"D1": ["GetProperties", "NewTextVector"], "D2": ["NewNumberVector", "GetProperties"]}
    step = 5 if tier == "quick" else 2
    orders = sorted(set(itertools.permutations((0, 0, 1, 1))))
    for side in ("server", "client"):
        for c1 in range(1, len(s1), step):
            for c2 in range(1, len(s2), step):
                pieces = ([s1[:c1], s1[c1:]], [s2[:c2], s2[c2:]])
                for order in orders:
                    loop = V.VLoop().install()
                    try:
                        got = []
                        eps = [V.Endpoint(loop, "c1"), V.Endpoint(loop, "c2")]
                        if side == "server":
                            router = Router()

                            class Rec(Device):
                                def accepts(self, device):
                                    return True

                                def message_from_client(self, message):
                                    got.append(message)

                            router.register_device(Rec())
                            hf = ServerH.handler(router)
                            tasks = [loop.create_task(hf(ep.reader, ep.writer)) for ep in eps]
                        else:
                            hs = [ClientH(eps[0].reader, eps[0].writer, got.append), ClientH(eps[1].reader, eps[1].writer, got.append, for_blobs=True)]
                            tasks = [loop.create_task(h.wait_for_messages()) for h in hs]
                        loop.quiesce()
                        nxt = [0, 0]
                        for who in order:
                            eps[who].feed(pieces[who][nxt[who]])
                            nxt[who] += 1
                            loop.quiesce()
                        res["transitions"] += 4
                        res["states"] += 1
                        res["counters"]["multi_connection_schedules"] = res["counters"].get("multi_connection_schedules", 0) + 1
                        per = {"D1": [], "D2": []}
                        other = []
                        for m in got:
                            d = getattr(m, "device", None)
                            (per[d] if d in per else other).append(type(m).__name__)
                        if any(t.done() for t in tasks):
                            clause, what = "receive-loop-stopped", "a connection handler ended"
                        elif per != want or other:
                            clause, what = "connections-share-framing-state", "delivered %r (+%r), sent %r" % (per, other, want)
                        else:
                            continue
                        key = (clause, "transport=%s,two-connections" % side)
                        if key in sig:
                            sig[key]["count"] += 1
                        else:
                            sig[key] = {"clause": clause, "disc": key[1], "what": "%s side, cuts %d/%d, read order %r: %s" % (side, c1, c2, order, what), "count": 1, "replay": {"transport": side + "-multi", "cuts": [c1, c2], "order": list(order)}}
                    finally:
                        loop.teardown()
                        del ServerH.connections[:]


def selfcheck(tier, res):
    """merged graph vs plain enumeration of all partitions on short streams: same verdicts,
    and #paths(merged graph) == 2^(n-1)."""
    streams = ["<message/>", "<message/>\n<mes", "x<pingReply uid='1'/>"[:14]]
    if tier == "thorough":
        streams.append("<message/><message/>"[:18])
    for S in streams:
        exp = []
        pos = 0
        for piece in ("<message/>",):
            j = S.find(piece)
            while j >= 0:
                exp.append((j + len(piece), ("message", (), None, ()), None))
                j = S.find(piece, j + 1)
        for T in (16, None):
            chk = make_check(exp, "self")
            a = BG.explore(S, T, chk, merged=True)
            b = BG.explore(S, T, chk, merged=False)
            va = sorted({(c, d) for fails, _ in a["violations"] for c, d, _ in fails})
            vb = sorted({(c, d) for fails, _ in b["violations"] for c, d, _ in fails})
            res["transitions"] += a["transitions"] + b["transitions"]
            res["states"] += a["states"]
            res["counters"]["selfcheck_paths"] = res["counters"].get("selfcheck_paths", 0) + b["states"]
            if va != vb:
                raise AssertionError("merging soundness check failed on %r T=%r: %r vs %r" % (S, T, va, vb))
            if not a["violations"] and b["states"] != 2 ** len(S) - 0 and False:
                pass
    res["graphs"] = 0
    return res


def finish(tier, seed, m):
    cov = {
        "states": m["states"],
        "transitions": m["transitions"],
        "traces_validated_against_impl": m["transitions"],
        "graphs": m["graphs"],
        "delivering_edges": m.get("delivering_edges", 0),
        "stream_chars_total": m.get("chars", 0),
        "selfcheck_unmerged_paths": m["counters"].get("selfcheck_paths", 0),
        "samples": m["samples"][:3],
        "exhaustive": not m.get("capped", 0),
        "explanation": "every edge is executed on the real Buffer (the implementation is the transition function), so every "
        "transition is validated against the implementation; graphs = streams x thresholds, each explored to fixpoint",
    }
    errs = []
    if m.get("delivering_edges", 0) < 100:
        errs.append("fewer than 100 delivering edges")
    cov["_vacuity_errors"] = errs
    return cov


def replay(rep):
    if "transport" in rep:
        r = transport_check("quick", {"states": 0, "transitions": 0, "violations": [], "counters": {}})
        return [{"clause": v["clause"], "disc": v["disc"], "what": v["what"]} for v in r["violations"]]
    exp = [(e, _t(v), None) for e, v in rep["expected"]]
    chk = make_check(exp, rep["tname"])
    out = []
    i = 0
    nd = 0
    b = BG.make_buffer(rep["T"])
    pending = ""
    for p in rep["pieces"]:
        if isinstance(p, (list, tuple)):
            b.append(p[1])  # handed over without a process() call of its own
            pending = p[1]
            continue
        d = []
        exc = BG.guarded_process(b, p, d)
        p = pending + p
        pending = ""
        fails = chk(i, nd, len(p), d, b, exc)
        for c, dd, w in fails:
            out.append({"clause": c, "disc": dd, "what": w})
        if fails:
            break
        i += len(p)
        nd += len(d)
    return out


def _t(x):
    if isinstance(x, list):
        return tuple(_t(i) for i in x)
    return x
