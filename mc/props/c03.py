"""C03 - serialise-then-parse is the identity on protocol messages.

Bounded-exhaustive: every kind x every optional-attribute subset x 0..3 children (default
values), plus every <=d-slot deviation (d=1 quick, 2 thorough) over the lexical-class
alphabet on the fullest and the smallest structure with children, each in every spelling
of the own serialiser.  Oracle: independent structural views (minidom / attribute table).
"""
from mc.gen import messages as G
from mc.ref import xmlview as X

LEVEL = "exploration"
ASSUMPTIONS = [
    "values are drawn from the lexical-class alphabet of mc.gen.messages (one representative per class)",
    "carriage return and leading/trailing whitespace are excluded (as the property states)",
    "xml.dom.minidom is the independent reader of serialised bytes",
]


def shards(tier, seed):
    return [(tier, tag) for tag in G.ALL_TAGS] + [(tier, "@oneLight")]


def onelight_interplay(res, viol):
    """'oneLight' is both a registered top-level message and the child element of setLightVector: parsing one
    must not change what the other parses to, in either order, within one process"""
    import indi.message as M

    from mc import lib

    top = '<oneLight name="l1">Ok</oneLight>'
    vec_desc = G.skeleton("setLightVector", ("message",), 2)
    vec = lib.build(vec_desc).to_string()
    want_vec = X.view_of_desc(vec_desc)

    def check(order):
        for what in order:
            res["evaluations"] += 1
            try:
                if what == "top":
                    o = M.IndiMessage.from_string(top)
                    cls = type(o).__module__ + "." + type(o).__name__
                    if cls != "indi.message.one_light.OneLight" or X.view_of_msg(o) != ("oneLight", (("name", "l1"),), "Ok", ()):
                        viol("kind-confusion", "toplevel-oneLight,order=%s" % "-".join(order), "top-level oneLight parsed to %s %r" % (cls, X.view_of_msg(o)), {"desc": vec_desc, "step": "onelight"})
                else:
                    o = M.IndiMessage.from_string(vec)
                    if X.view_of_msg(o) != want_vec or any(type(c).__module__ != "indi.message.one_parts" for c in o.children):
                        viol("kind-confusion", "setLightVector-children,order=%s" % "-".join(order), "setLightVector parsed to %r with children %r" % (X.view_of_msg(o), [type(c).__module__ for c in o.children]), {"desc": vec_desc, "step": "onelight"})
            except Exception as e:
                viol("parse-own-output-raises", "kind=%s,order=%s,%s" % ("oneLight" if what == "top" else "setLightVector", "-".join(order), type(e).__name__), repr(e), {"desc": vec_desc, "step": "onelight"})

    check(("vec", "top", "vec"))
    check(("top", "vec", "top"))


def cases(tag, tier):
    """yield (label, desc, spelling_tier)"""
    seen = set()
    for desc in G.structures(tag, 3, full_child_opts=True):
        if desc not in seen:
            seen.add(desc)
            yield "structure", desc, tier
    k = G.KINDS[tag]
    optn = tuple(n for n, _ in k.opt)
    bases = []
    if k.child:
        pon = tuple(n for n, _ in G.PARTS[k.child].opt)
        bases.append(G.skeleton(tag, optn, 2, [pon, ()]))
        bases.append(G.skeleton(tag, (), 1, [pon]))
    else:
        bases.append(G.skeleton(tag, optn, 0))
        bases.append(G.skeleton(tag, (), 0))
    for bi, b in enumerate(bases):
        for dd in G.deviations(b, 1):
            if dd not in seen:
                seen.add(dd)
                yield "dev1", dd, tier
    # constructor arguments that are Python numbers, as application code passes them (zeros included)
    for b in bases:
        for path, kind in G.slots(b):
            if kind == G.K_NUM:
                for v in (0, 0.0, -0.0, 5, 1.5, -2):
                    yield "typed", G.with_slot(b, path, v), "quick"
    if tier == "thorough":
        for dd in G.deviations(bases[0] if not k.child else G.skeleton(tag, optn, 1, [tuple(n for n, _ in G.PARTS[k.child].opt)]), 2):
            if dd not in seen:
                seen.add(dd)
                yield "dev2", dd, "quick"


def check_one(desc, sp_tier, lib, M, viol, C):
    """returns number of parse evaluations"""
    want = X.view_of_desc(desc)
    n = 0
    tag = desc[0]
    try:
        obj = lib.build(desc)
    except Exception as e:
        viol("build-raises", "kind=%s,%s" % (tag, lib.exc_site(e)), repr(e), {"desc": desc, "step": "build"})
        return 0
    try:
        s1 = obj.to_string()
    except Exception as e:
        viol("serialise-raises", "kind=%s,%s" % (tag, lib.exc_site(e)), repr(e), {"desc": desc, "step": "to_string"})
        return 0
    n += 1
    try:
        got = X.view_of_xml(s1)
    except Exception as e:
        viol("serialised-not-xml", "kind=%s" % tag, "%r: %r" % (s1, e), {"desc": desc, "step": "own-bytes"})
        return n
    if got != want:
        viol("serialised-differs", "kind=%s,%s" % (tag, diff_where(want, got)), "want %r got %r from %r" % (want, got, s1), {"desc": desc, "step": "own-bytes"})
    try:
        obj2 = M.IndiMessage.from_string(s1)
    except Exception as e:
        viol("parse-own-output-raises", "kind=%s,%s" % (tag, type(e).__name__), "%r: %r" % (s1, e), {"desc": desc, "step": "roundtrip"})
        obj2 = None
    if obj2 is not None:
        got = X.view_of_msg(obj2)
        if got != want:
            viol("roundtrip-differs", "kind=%s,%s" % (tag, diff_where(want, got)), "want %r got %r" % (want, got), {"desc": desc, "step": "roundtrip"})
        s2 = obj2.to_string()
        if s2 != s1:
            viol("second-serialisation-differs", "kind=%s" % tag, "%r vs %r" % (s1, s2), {"desc": desc, "step": "roundtrip"})
        elif consume(tag, obj2, C):
            # a message is a value: the library's own consumers (the client model for def/set, a driver for new) read it,
            # after which it still serialises to the same bytes (the router hands ONE object to all recipients)
            s3 = obj2.to_string()
            if s3 != s1:
                viol("consumed-message-serialises-differently", "kind=%s" % tag, "before %r after %r" % (s1, s3), {"desc": desc, "step": "consume"})
    # a message changed in place AFTER it has been serialised serialises as what it now says (nothing remembered from
    # the earlier rendering): a child's value, a child's name, an attribute of the message
    if desc[3]:
        ct, ca, ctext = desc[3][0]
        try:
            m1 = lib.build(desc)
            m1.to_string()
            newname = "renamed"
            m1.children[0].name = newname
            want_desc = (desc[0], desc[1], desc[2], ((ct, tuple((k_, newname if k_ == "name" else v_) for k_, v_ in ca), ctext),) + tuple(desc[3][1:]))
            sa, sb = m1.to_string(), lib.build(want_desc).to_string()
            n += 1
            if sa != sb:
                viol("stale-serialisation", "kind=%s,child-changed-in-place" % tag, "after renaming the first child: %r, a fresh message says %r" % (sa, sb), {"desc": desc, "step": "mutate"})
        except Exception:
            pass
    if any(k_ == "device" for k_, _ in desc[1]):
        try:
            m2 = lib.build(desc)
            m2.to_string()
            m2.device = "OTHERDEV"
            want_desc = (desc[0], tuple((k_, "OTHERDEV" if k_ == "device" else v_) for k_, v_ in desc[1]), desc[2], desc[3])
            sa, sb = m2.to_string(), lib.build(want_desc).to_string()
            n += 1
            if sa != sb:
                viol("stale-serialisation", "kind=%s,attribute-changed-in-place" % tag, "after changing the device: %r, a fresh message says %r" % (sa, sb), {"desc": desc, "step": "mutate"})
        except Exception:
            pass
    for sp in G.spellings(sp_tier):
        text = G.serialise(desc, sp)
        n += 1
        C["spellings"] = C.get("spellings", 0) + 1
        try:
            o = M.IndiMessage.from_string(text)
        except Exception as e:
            viol(
                "parse-foreign-raises",
                "kind=%s,%s" % (tag, type(e).__name__),
                "%r (%r): %r" % (text, sp, e),
                {"desc": desc, "step": "foreign", "spelling": sp.key()},
            )
            continue
        got = X.view_of_msg(o)
        if got != want:
            viol(
                "foreign-differs",
                "kind=%s,%s" % (tag, diff_where(want, got)),
                "want %r got %r from %r" % (want, got, text),
                {"desc": desc, "step": "foreign", "spelling": sp.key()},
            )
    # the same message as BYTES in the encodings an XML document may declare (a peer's stream is bytes; the parser must
    # honour the declaration / byte-order mark, the library's own output being only one of the possible encodings)
    base_sp = G.Spelling(0, 0, '"', 0, 0, 0, 0, 0, 0)
    body = G.serialise(desc, base_sp)
    for enc, decl, codec in (("utf-8", '<?xml version="1.0" encoding="UTF-8"?>', "utf-8"), ("utf-8-undeclared", "", "utf-8"), ("iso-8859-1", '<?xml version="1.0" encoding="ISO-8859-1"?>', "latin-1"), ("utf-16", '<?xml version="1.0" encoding="UTF-16"?>', "utf-16"), ("windows-1252", "<?xml version='1.0' encoding='windows-1252'?>", "cp1252")):
        data = (decl + body).encode(codec, "xmlcharrefreplace")
        n += 1
        C["byte_encodings"] = C.get("byte_encodings", 0) + 1
        try:
            o = M.IndiMessage.from_string(data)
        except Exception as e:
            viol("parse-foreign-raises", "kind=%s,bytes=%s,%s" % (tag, enc, type(e).__name__), "%r: %r" % (data[:200], e), {"desc": desc, "step": "bytes", "enc": enc})
            continue
        got = X.view_of_msg(o)
        if got != want:
            viol("foreign-differs", "kind=%s,bytes=%s,%s" % (tag, enc, diff_where(want, got)), "want %r got %r from %r" % (want, got, data[:200]), {"desc": desc, "step": "bytes", "enc": enc})
    return n


def consume(tag, msg, C):
    """hand the parsed message to the library's consumers; returns True if one of them took it (exceptions and refusals
    are not this property's business)"""
    import indi.message as M

    kind = next((k for k in ("Text", "Number", "Switch", "Light", "BLOB") if tag.endswith(k + "Vector")), None)
    if kind is None or not getattr(msg, "children", None):
        return False
    names = [c.name for c in msg.children]
    try:
        if tag.startswith("set") or tag.startswith("def"):
            from indi.client.client import BaseClient
            from indi.message import def_parts

            class _Quiet(BaseClient):
                def send_message(self, msg):
                    pass

            cl = _Quiet()
            if tag.startswith("set"):
                part = getattr(def_parts, "Def" + kind)
                kw = dict(format="%f", min="0", max="0", step="0") if kind == "Number" else {}
                val = {"Switch": "Off", "Light": "Idle", "Number": "0"}.get(kind)
                ch = [part(name=n, value=val, **kw) for n in dict.fromkeys(names)]
                dkw = dict(device=msg.device, name=msg.name, state="Ok", children=ch)
                if kind != "Light":
                    dkw["perm"] = "rw"
                if kind == "Switch":
                    dkw["rule"] = "AnyOfMany"
                cl.process_message(getattr(M, "Def%sVector" % kind)(**dkw))
            cl.process_message(msg)
            C["consumed_by_client"] = C.get("consumed_by_client", 0) + 1
            return True
        if tag.startswith("new"):
            from indi.routing import Router

            from mc.gen import drivers as D

            els = [dict(attr="e%d" % i, name=n) for i, n in enumerate(dict.fromkeys(names))]
            if kind == "Number":
                for e in els:
                    e.update(format="%f", min=0, max=0, step=0, default=0.0)
            vec = dict(attr="v", kind=kind.lower(), name=msg.name, elements=els)
            if kind == "Switch":
                vec["rule"] = "AnyOfMany"
            cls, _ = D.build_class(dict(name=msg.device, groups=[dict(attr="g", name="G", vectors=[vec])]))
            dev = cls(router=Router())
            dev.message_from_client(msg)
            C["consumed_by_driver"] = C.get("consumed_by_driver", 0) + 1
            return True
    except Exception:
        return False
    return False


def diff_where(want, got):
    if want[0] != got[0]:
        return "tag"
    if want[1] != got[1]:
        wa, ga = dict(want[1]), dict(got[1])
        names = sorted(k for k in set(wa) | set(ga) if wa.get(k) != ga.get(k))
        return "attr:" + ",".join(names)
    if want[2] != got[2]:
        return "text"
    if len(want[3]) != len(got[3]):
        return "child-count"
    for w, g in zip(want[3], got[3]):
        if w != g:
            if w[0] != g[0]:
                return "child-tag"
            if w[1] != g[1]:
                wa, ga = dict(w[1]), dict(g[1])
                return "child-attr:" + ",".join(sorted(k for k in set(wa) | set(ga) if wa.get(k) != ga.get(k)))
            return "child-text"
    return "?"


def run_shard(shard):
    import indi.message as M

    from mc import lib

    tier, tag = shard
    res = {"evaluations": 0, "descs": 0, "violations": [], "samples": [], "counters": {}}
    seen_sig = {}
    if tag == "@oneLight":
        def viol0(clause, disc, what, replay):
            if (clause, disc) not in seen_sig:
                seen_sig[(clause, disc)] = {"clause": clause, "disc": disc, "what": what, "replay": replay, "count": 1}
                res["violations"].append(seen_sig[(clause, disc)])

        onelight_interplay(res, viol0)
        return res

    def viol(clause, disc, what, replay):
        key = (clause, disc)
        if key in seen_sig:
            seen_sig[key]["count"] += 1
            return
        v = {"clause": clause, "disc": disc, "what": what, "replay": replay, "count": 1}
        seen_sig[key] = v
        res["violations"].append(v)

    for label, desc, sp_tier in cases(tag, tier):
        res["descs"] += 1
        res["counters"][label] = res["counters"].get(label, 0) + 1
        res["evaluations"] += check_one(desc, sp_tier, lib, M, viol, res["counters"])
        if not res["samples"] and label == "dev1":
            res["samples"].append({"desc": desc, "own_bytes": repr(lib.build(desc).to_string()) if tag != "message" else None, "foreign": G.serialise(desc, list(G.spellings("quick"))[2])})
    return res


def finish(tier, seed, m):
    cov = {
        "evaluations": m["evaluations"],
        "distinct_nontrivial": m["descs"],
        "rule": "distinct abstract message descriptions (deduplicated per kind); each is serialised by the library and "
        "re-parsed, and parsed from every foreign spelling; evaluations = parses performed; a description is non-trivial "
        "because each differs from all others in structure or in one value slot",
        "generated": m["counters"],
        "samples": m["samples"][:4],
        "exhaustive": True,
        "bounds": {"children": "0..3", "deviations": 1 if tier == "quick" else 2, "spellings": len(list(G.spellings(tier)))},
    }
    cov["_vacuity_errors"] = [] if m["counters"].get("dev1", 0) > 100 else ["too few deviation cases"]
    return cov


def _t(x):
    if isinstance(x, list):
        return tuple(_t(i) for i in x)
    return x


def replay(rep):
    import indi.message as M

    from mc import lib

    out = []

    def viol(clause, disc, what, replay):
        out.append({"clause": clause, "disc": disc, "what": what})

    if rep.get("step") == "onelight":
        onelight_interplay({"evaluations": 0}, viol)
        return out
    check_one(_t(rep["desc"]), "quick", lib, M, viol, {})
    return out
