"""C20 - message equality is structural.

Bounded-exhaustive enumeration: every structure of the message grammar (all kinds x all
optional-attribute subsets x 0..3 children) x every single-point perturbation
(slot changed to every other value of its domain, optional attribute dropped / added,
child dropped / duplicated / swapped, kind changed) must compare != (both operand orders,
both operators); every independently rebuilt copy must compare ==.
"""
import itertools

from mc.gen import messages as G

LEVEL = "exploration"
ASSUMPTIONS = [
    "values outside the lexical-class alphabet and >3 children are not enumerated",
    "objects are built through the public constructors of the message classes",
]

COMPAT = [
    ("pingRequest", "pingReply"),
    ("defTextVector", "defBLOBVector"),
    ("defTextVector", "defNumberVector"),
    ("setTextVector", "setNumberVector"),
    ("setSwitchVector", "setLightVector"),
    ("newTextVector", "newNumberVector"),
    ("newSwitchVector", "newBLOBVector"),
    ("delProperty", "message"),
]


def shards(tier, seed):
    return [(tier, tag) for tag in G.ALL_TAGS] + [(tier, "@parts")]


LONG_FREE = "The quick brown fox jumps over the lazy dog. " * 3  # 135 characters
LONG_B64 = "QUJDREVGR0hJSktMTU5PUFFSU1RVVldYWVo=" * 4 + "QUJD"  # 148 characters of base64


def late_variants(v):
    """values of the same length as v that differ from it in one character only: in the middle, near the end, last"""
    out = []
    for pos in (len(v) // 2, len(v) - 9, len(v) - 1):
        c = "x" if v[pos] != "x" else "y"
        out.append(v[:pos] + c + v[pos + 1 :])
    return out


def perturbations(desc, tier):
    tag, attrs, text, children = desc
    k = G.KINDS[tag]
    # a long value against the same value with ONE character changed far from its beginning (same length): what a
    # comparison through an abbreviated, hashed or truncated rendering would miss
    for path, kind in G.slots(desc):
        if kind in (G.K_FREE, G.K_B64) and path[0] in ("t", "ct", "a", "ca"):
            base = LONG_B64 if kind == G.K_B64 else LONG_FREE
            where = path[0] + ("@" + ("last" if path[1] == len(children) - 1 else "index<last") if path[0] in ("ca", "ct") else "")
            d_long = G.with_slot(desc, path, base)
            for v in late_variants(base):
                yield "long-value-differs-late:" + where, (d_long, G.with_slot(desc, path, v))
    # number texts that denote the same (or nearly the same) number in another notation are other TEXTS: a message says
    # what it says, equality is not numeric
    for path, kind in G.slots(desc):
        if kind == G.K_NUM and path[0] in ("ct", "t"):
            where = path[0] + ("@" + ("last" if path[1] == len(children) - 1 else "index<last") if path[0] == "ct" else "")
            for a, b in (("5", "5.0"), ("5", "05"), ("5", "5:00:00"), ("1.5", "1:30"), ("9007199254740992", "9007199254740993"), ("0.1", "0.10000000000000001"), ("1", "+1")):
                yield "number-text-same-value:" + where, (G.with_slot(desc, path, a), G.with_slot(desc, path, b))
    # slot changes
    for path, kind in G.slots(desc):
        cur = G.get_slot(desc, path)
        alts = [v for v in G.domain(kind) if v != cur]
        if tier == "quick" and path[0] in ("a", "ca") and kind == G.K_FREE:
            alts = alts[:4]
        where = path[0]
        if path[0] in ("ca", "ct"):
            where += "@" + ("last" if path[1] == len(children) - 1 else "index<last")
        for v in alts:
            yield "slot-changed:" + where, G.with_slot(desc, path, v)
    present = {n for n, _ in attrs}
    optn = [n for n, _ in k.opt]
    for n in optn:
        if n in present:
            yield "attr-dropped", (tag, tuple(a for a in attrs if a[0] != n), text, children)
        else:
            kd = dict(k.opt)[n]
            yield "attr-added", (tag, attrs + ((n, G.default_of(kd)),), text, children)
            # ... also with a value that another attribute of the message already has (label == name, group == device)
            for n2, v2 in attrs:
                if dict(k.req + k.opt).get(n2) == kd and v2 != G.default_of(kd):
                    yield "attr-added", (tag, attrs + ((n, v2),), text, children)
            # present-but-falsy values are still present: "" for free attributes, numeric zeros for numbers
            for fv in ("",) if kd == G.K_FREE else (0, 0.0, "0"):
                yield "attr-added-falsy", (tag, attrs + ((n, fv),), text, children)
    # child-level optional attributes and numeric zeros as child values
    for ci, (ct, ca, ctext) in enumerate(children):
        p = G.PARTS[ct]
        cpresent = {n for n, _ in ca}
        pos = "last" if ci == len(children) - 1 else "index<last"
        for n, kd in p.opt:
            if n not in cpresent:
                ch = list(children)
                ch[ci] = (ct, ca + ((n, ""),), ctext)
                yield "child-attr-added-falsy@" + pos, (tag, attrs, text, tuple(ch))
        if p.text == G.K_NUM and ctext is not None:
            for fv in (0, 0.0):
                if str(fv) != str(ctext):
                    ch = list(children)
                    ch[ci] = (ct, ca, fv)
                    yield "child-value-zero@" + pos, (tag, attrs, text, tuple(ch))
    if k.text and text is not None:
        pass  # text is required for enableBLOB; dropping it is not constructible
    for i in range(len(children)):
        pos = "last" if i == len(children) - 1 else "index<last"
        yield "child-dropped@" + pos, (tag, attrs, text, children[:i] + children[i + 1 :])
        yield "child-duplicated@" + pos, (tag, attrs, text, children[: i + 1] + children[i:])
        if i + 1 < len(children) and children[i] != children[i + 1]:
            sw = list(children)
            sw[i], sw[i + 1] = sw[i + 1], sw[i]
            yield "child-swapped@" + ("last" if i + 1 == len(children) - 1 else "index<last"), (tag, attrs, text, tuple(sw))
    # a child replaced by a part of another kind with the same name and text (where the library lets one build it)
    for i, (ct, ca, ctext) in enumerate(children):
        pos = "last" if i == len(children) - 1 else "index<last"
        for other in ("oneText", "oneLight", "oneSwitch", "oneNumber", "defText", "defLight", "defSwitch"):
            if other == ct:
                continue
            op = G.PARTS[other]
            need = {n for n, _ in op.req}
            have = {n for n, _ in ca}
            if not need <= have:
                continue
            oca = tuple((n, v) for n, v in ca if n in {m for m, _ in op.req + op.opt})
            ch = list(children)
            ch[i] = (other, oca, ctext)
            yield "child-kind-changed@" + pos, (tag, attrs, text, tuple(ch))
    if not children:
        for a, b in COMPAT:
            for x, y in ((a, b), (b, a)):
                if tag == x:
                    ky = G.KINDS[y]
                    ok = {n for n, _ in ky.req + ky.opt}
                    need = {n for n, _ in ky.req}
                    if need <= present and present <= ok:
                        yield "kind-changed", (y, attrs, text, children)


def norm(desc):
    """order-insensitive, string-valued form of a desc: two descs with the same norm may denote structurally
    equal messages (0 vs "0", attribute order), so a pair is only demanded to be unequal when the norms differ"""
    tag, attrs, text, children = desc
    return (
        tag,
        tuple(sorted((n, str(v)) for n, v in attrs)),
        None if text is None else str(text),
        tuple((ct, tuple(sorted((n, str(v)) for n, v in ca)), None if ctext is None else str(ctext)) for ct, ca, ctext in children),
    )


def swaps(desc):
    """one edit that exchanges the values of two slots of the same kind (invisible to any comparison that looks at the
    multiset of values instead of at who carries which value)"""
    sl = list(G.slots(desc))
    for (p1, k1), (p2, k2) in itertools.combinations(sl, 2):
        if k1 != k2:
            continue
        v1, v2 = G.get_slot(desc, p1), G.get_slot(desc, p2)
        if v1 == v2 or v1 is None or v2 is None:
            continue
        where = "attrs" if p1[0] == p2[0] == "a" else ("children" if p1[0] != "a" and p2[0] != "a" else "attr-child")
        yield "values-swapped:" + where, G.with_slot(G.with_slot(desc, p1, v2), p2, v1)


def compare(a, b):
    """returns set of observed relation failures for objects that must be unequal"""
    bad = []
    if a == b:
        bad.append("a==b")
    if b == a:
        bad.append("b==a")
    if not (a != b):
        bad.append("not a!=b")
    if not (b != a):
        bad.append("not b!=a")
    return bad


def run_shard(shard):
    from mc import lib

    tier, tag = shard
    res = {"evaluations": 0, "pairs_unequal": 0, "pairs_equal": 0, "violations": [], "samples": [], "counters": {}}
    C = res["counters"]

    def viol(clause, disc, what, replay):
        res["violations"].append({"clause": clause, "disc": disc, "what": what, "replay": replay})

    if tag == "@parts":
        # message parts compared directly: same name/value, different part class
        names = list(lib.PART_CLASSES)
        for x, y in itertools.permutations(names, 2):
            kw = {}
            try:
                a = lib.build_part(_part_skel(x))
                b = lib.build_part(_part_skel(y))
            except Exception:
                continue
            res["evaluations"] += 1
            res["pairs_unequal"] += 1
            bad = compare(a, b)
            if bad:
                viol("perturbed-compares-equal", "part-kind-changed", "%s vs %s: %s" % (x, y, bad), {"kind": "parts", "a": x, "b": y})
        for x in names:
            a = lib.build_part(_part_skel(x))
            b = lib.build_part(_part_skel(x))
            res["evaluations"] += 1
            res["pairs_equal"] += 1
            if not (a == b) or (a != b):
                viol("copy-compares-unequal", "part", x, {"kind": "parts", "a": x, "b": x})
        res["samples"].append({"parts": names})
        return res

    maxch = 3
    for desc in G.structures(tag, maxch, full_child_opts=(tier == "thorough")):
        a = lib.build(desc)
        c = lib.build(desc)
        res["evaluations"] += 1
        res["pairs_equal"] += 1
        if not (a == c) or (a != c) or not (c == a):
            viol("copy-compares-unequal", "rebuilt-copy", repr(desc), {"kind": "copy", "desc": desc})
        for label, pd in perturbations(desc, tier):
            left_desc, left = desc, a
            if label.startswith("long-value") or label.startswith("number-text-same-value"):
                left_desc, pd = pd  # both sides are given
            try:
                if left_desc is not desc:
                    left = lib.build(left_desc)
                b = lib.build(pd)
            except Exception:
                C["unbuildable"] = C.get("unbuildable", 0) + 1
                continue
            res["evaluations"] += 1
            res["pairs_unequal"] += 1
            C[label.split("@")[0].split(":")[0]] = C.get(label.split("@")[0].split(":")[0], 0) + 1
            bad = compare(left, b)
            if bad:
                viol(
                    "perturbed-compares-equal",
                    label,
                    "%s: %r vs %r" % (",".join(bad), left_desc, pd),
                    {"kind": "pair", "a": left_desc, "b": pd, "label": label},
                )
        # equality is a property of the content, not of what has been done with the objects: a copy that has been
        # serialised / rendered / hashed / parsed back still equals a fresh one (both operand orders)
        used = lib.build(desc)
        fresh = lib.build(desc)
        ops_done = []
        for opname, op in (("to_string", lambda m: m.to_string()), ("to_dict", lambda m: m.to_dict()), ("repr", lambda m: repr(m)), ("str", lambda m: str(m)), ("to_xml", lambda m: m.to_xml())):
            try:
                op(used)
                ops_done.append(opname)
            except Exception:
                continue
            res["evaluations"] += 1
            res["pairs_equal"] += 1
            C["used-copy"] = C.get("used-copy", 0) + 1
            if not (used == fresh) or not (fresh == used) or (used != fresh) or (fresh != used):
                viol("copy-compares-unequal", "after-" + opname, "%r: a copy on which %s was called no longer equals a fresh one" % (desc, "+".join(ops_done)), {"kind": "used", "desc": desc, "ops": list(ops_done)})
                break
        try:
            import indi.message as M

            back = M.IndiMessage.from_string(lib.build(desc).to_string())
        except Exception:
            back = None  # not this property's business (C03)
        if back is not None:
            res["evaluations"] += 1
            res["pairs_equal"] += 1
            C["parsed-copy"] = C.get("parsed-copy", 0) + 1
            plain = desc[2] != "" and all(ct != "" and (ct is None or ct == ct.strip()) for _, _, ct in desc[3])  # "" reads back as absent (C03's normalisation)
            if plain and G.KINDS[desc[0]].text is None and all(v == str(v) for _, v in desc[1]) and (not (back == fresh) or not (fresh == back) or (back != fresh)):
                viol("copy-compares-unequal", "parsed-back", "%r: the message parsed from its own serialisation does not equal a fresh copy" % (desc,), {"kind": "parsed", "desc": desc})
        if tier == "thorough":
            # two-point perturbations and value exchanges: edits that cancel in an order-, position- or
            # multiset-insensitive comparison.  Demanded unequal only when the normal forms differ.
            nd = norm(desc)
            seen2 = set()
            two = []
            for label, pd in swaps(desc):
                two.append((label, pd))
            if len(desc[3]) <= 2:
                for label1, pd1 in perturbations(desc, "quick"):
                    if label1.startswith("long-value") or label1.startswith("number-text-same-value"):
                        continue  # (pairs of their own, judged above)
                    for label2, pd2 in perturbations(pd1, "quick"):
                        if label2.startswith("long-value") or label2.startswith("number-text-same-value"):
                            continue
                        two.append(("two-point:%s+%s" % (label1.split("@")[0].split(":")[0], label2.split("@")[0].split(":")[0]), pd2))
            for label, pd in two:
                n2 = norm(pd)
                if n2 == nd or n2 in seen2:
                    continue
                seen2.add(n2)
                try:
                    b = lib.build(pd)
                except Exception:
                    C["unbuildable"] = C.get("unbuildable", 0) + 1
                    continue
                res["evaluations"] += 1
                res["pairs_unequal"] += 1
                kind2 = label.split(":")[0]
                C[kind2] = C.get(kind2, 0) + 1
                bad = compare(a, b)
                if bad:
                    viol("perturbed-compares-equal", label, "%s: %r vs %r" % (",".join(bad), desc, pd), {"kind": "pair", "a": desc, "b": pd, "label": label})
        if len(res["samples"]) < 1 and desc[3]:
            res["samples"].append({"desc": desc, "perturbation": next(iter(perturbations(desc, tier)))})
    return res


def _part_skel(ptag):
    p = G.PARTS[ptag]
    ca = tuple((n, "e0" if n == "name" else G.default_of(kd)) for n, kd in p.req)
    return (ptag, ca, G.default_of(p.text) if p.text else None)


def finish(tier, seed, m):
    cov = {
        "evaluations": m.get("evaluations", 0),
        "distinct_nontrivial": m.get("pairs_unequal", 0),
        "rule": "every (structure, single-point perturbation) pair is generated once by construction "
        "(structures are distinct descriptions, perturbations distinct edits); non-trivial = the pair "
        "differs structurally and must compare unequal; pairs_equal = independently rebuilt copies",
        "pairs_equal": m.get("pairs_equal", 0),
        "perturbation_kinds": m["counters"],
        "samples": m["samples"][:5],
        "exhaustive": True,
        "bounds": {"children": "0..3", "slot_alternatives": "all of domain" if tier == "thorough" else "all for vocab/num/text slots, 4 for free attribute slots"},
    }
    errs = []
    for need in ("slot-changed", "attr-dropped", "attr-added", "child-dropped", "child-duplicated", "child-swapped", "kind-changed"):
        if not m["counters"].get(need):
            errs.append("no perturbation of kind %s was generated" % need)
    cov["_vacuity_errors"] = errs
    return cov


def _t(x):
    if isinstance(x, list):
        return tuple(_t(i) for i in x)
    return x


def replay(rep):
    from mc import lib

    out = []
    if rep["kind"] == "pair":
        a, b = lib.build(_t(rep["a"])), lib.build(_t(rep["b"]))
        bad = compare(a, b)
        if bad:
            out.append({"clause": "perturbed-compares-equal", "disc": rep["label"], "what": ",".join(bad)})
    elif rep["kind"] == "used":
        used, fresh = lib.build(_t(rep["desc"])), lib.build(_t(rep["desc"]))
        for opname in rep["ops"]:
            getattr(used, opname)() if opname in ("to_string", "to_dict", "to_xml") else (repr(used) if opname == "repr" else str(used))
        if not (used == fresh) or not (fresh == used) or (used != fresh):
            out.append({"clause": "copy-compares-unequal", "disc": "after-" + rep["ops"][-1], "what": ""})
    elif rep["kind"] == "parsed":
        import indi.message as M

        fresh = lib.build(_t(rep["desc"]))
        back = M.IndiMessage.from_string(lib.build(_t(rep["desc"])).to_string())
        if not (back == fresh) or not (fresh == back) or (back != fresh):
            out.append({"clause": "copy-compares-unequal", "disc": "parsed-back", "what": ""})
    elif rep["kind"] == "copy":
        a, b = lib.build(_t(rep["desc"])), lib.build(_t(rep["desc"]))
        if not (a == b) or (a != b):
            out.append({"clause": "copy-compares-unequal", "disc": "rebuilt-copy", "what": ""})
    elif rep["kind"] == "parts":
        a, b = lib.build_part(_part_skel(rep["a"])), lib.build_part(_part_skel(rep["b"]))
        if rep["a"] != rep["b"]:
            bad = compare(a, b)
            if bad:
                out.append({"clause": "perturbed-compares-equal", "disc": "part-kind-changed", "what": ",".join(bad)})
        elif not (a == b):
            out.append({"clause": "copy-compares-unequal", "disc": "part", "what": ""})
    return out
