"""C11 - garbage on the wire cannot hang, crash or bloat the receiver, and is skipped.

Explicit-state model checking of the real Buffer over a hostile corpus:
 (a) all sequences of <=2 (quick) / <=3 (thorough) fragments of a 33-item alphabet: complete
     all-partitions graph per stream x threshold {16,128,2048,None};
     sequences one longer: whole, char-by-char and every single cut;
 (b) valid messages truncated at EVERY position (and well-formed-but-invalid elements),
     followed by numbered valid messages up to T+64 further characters: all-partitions graph
     (small T) or whole / per-char / fixed-chunk / every-single-cut feeding (T=2048).
Oracle per process() call: returns, raises nothing, delivers only genuine messages,
retains <= T; non-imitating junk: strict promptness (as C02); after corruption: later
messages exactly once, in order, at the latest when T+1 further characters have arrived.
"""
import itertools
from xml.dom import minidom

from mc.core import bufgraph as BG
from mc.gen import messages as G
from mc.ref import xmlview as X

LEVEL = "model_checking"
ASSUMPTIONS = [
    "hostile texts are assembled from the fragment alphabet FRAGS (Latin-1), not arbitrary strings",
    "I-4: a delivered object is genuine when its view equals that of a well-formed known-tag element occurring as a substring of the input",
    "I-14: with the threshold disabled the eventual-delivery clause is not asserted",
]
SHARD_LIMIT = {"quick": 900, "thorough": 7200}

KNOWN = tuple(G.ALL_TAGS) + ("oneLight",)
V1 = '<getProperties version="1.7"/>'
V2 = '<setTextVector device="d" name="n" state="Ok"><oneText name="e">v</oneText></setTextVector>'
V3 = '<oneLight name="l">Ok</oneLight>'
V0 = "<message/>"
FRAGS = [
    V1, V2, "<getProperties", '<setTextVector device="d" name="n" state="Ok">', '<oneText name="e">', "</oneText>",
    "</setTextVector>", "</getProperties>", "/>", ">", "<", "&", '"', "'", ' version="1.7"', "<foo>", "</foo>", "<foo",
    "&amp;", "&#0;", "&bogus;", "<!--", "-->", "<![CDATA[", "]]>", '<?xml version="1.0"?>', "<?", "<!DOCTYPE x>",
    "\x00", "\xe9\xff", "abc", "\n", V3, V0,
]
# complete, well-formed elements with a known root tag that are not valid messages (long: combined with
# every core fragment in both orders instead of taking part in the full product)
EXTRA = [
    '<getProperties version="1.7"><br/></getProperties>',
    '<setTextVector device="d" name="n" state="Ok"><oneTexd name="e">v</oneTexd></setTextVector>',
]
VALID = {V0, V1, V2, V3}
THRESHOLDS = [("16", 16), ("128", 128), ("2048", 2048), ("None", None)]


def known_tag_starts(S):
    out = []
    for t in KNOWN:
        j = S.find("<" + t)
        while j >= 0:
            out.append(j)
            j = S.find("<" + t, j + 1)
    return sorted(set(out))


class Genuine:
    """views of all well-formed known-tag elements that are substrings of S (lazy, cached)."""

    def __init__(self, S):
        self.S = S
        self.cache = {}

    def has(self, view):
        tag = view[0]
        S = self.S
        key = tag
        if key not in self.cache:
            views = set()
            j = S.find("<" + tag)
            while j >= 0:
                q = S.find(">", j)
                while q >= 0:
                    sub = S[j : q + 1]
                    try:
                        v = X.view_of_xml(sub)
                        if v[0] == tag:
                            k = G.KINDS.get(tag)
                            if k is not None and k.text is None:
                                v = (v[0], v[1], None, v[3])  # character data of a vector element is not part of the message
                            views.add(v)
                    except Exception:
                        pass
                    q = S.find(">", q + 1)
                j = S.find("<" + tag, j + 1)
            self.cache[key] = views
        return view in self.cache[key]


def safe_view(m):
    try:
        return X.view_of_msg(m)
    except Exception as e:
        return ("unviewable", type(m).__name__)


def make_check(S, tname, T, segs, numbered, deadline_from):
    """segs: list of (kind, start, end) with kind in valid/junk/corrupt.
    numbered: list of (end_exclusive, view) of the valid messages that must be delivered exactly once in order
              (mode A: all valid messages, strict promptness; mode B: those after the last corrupt segment)
    deadline_from: None for mode A (strict promptness), else position of the end of the last corrupt segment."""
    gen = Genuine(S)
    modeA = deadline_from is None
    nviews = [v for _, v in numbered]

    def check_edge(i, nd, k, delivered, buf, exc):
        fails = []
        pos = i + k
        disc = "threshold=%s" % tname
        if exc is not None:
            if isinstance(exc, BG.Livelock):
                return [("livelock", disc, str(exc))]
            if isinstance(exc, BG.Hang):
                return [("hang", disc, str(exc))]
            from mc import lib

            return [("raises", disc + "," + lib.exc_site(exc), repr(exc))]
        if any(m is None for m in delivered):
            return [("none-delivered", disc, "callback received None")]
        views = [safe_view(m) for m in delivered]
        for v in views:
            if v[0] == "unviewable" or not gen.has(v):
                fails.append(("not-genuine", disc, "delivered %r which is no well-formed known element of the input" % (v,)))
        if T is not None and buf.data_len > T:
            fails.append(("retention", disc, "data_len=%d > T=%d after process" % (buf.data_len, T)))
        if fails:
            return fails
        if modeA:
            want = [idx for idx in range(nd, len(numbered)) if numbered[idx][0] <= pos]
            if len(views) != len(want):
                kind = "late-or-lost" if len(views) < len(want) else "early-or-spurious"
                fails.append((kind + "-around-junk", disc, "at pos %d expected %d deliveries, got %d" % (pos, len(want), len(views))))
            else:
                for idx, v in zip(want, views):
                    if v != numbered[idx][1]:
                        fails.append(("content-around-junk", disc, "want %r got %r" % (numbered[idx][1], v)))
        return fails

    return check_edge


class ModeB:
    """stateful (per path) oracle for mode B is folded into the graph state through nd:
    nd counts delivered *numbered* messages; order/no-dup/eventual delivery are edge-local given nd."""


def make_check_b(S, tname, T, numbered, corrupt_end):
    gen = Genuine(S)
    nviews = [v for _, v in numbered]
    nset = set(nviews)

    def check_edge(i, nd, k, delivered, buf, exc):
        pos = i + k
        disc = "threshold=%s" % tname
        if exc is not None:
            if isinstance(exc, BG.Livelock):
                return [("livelock", disc, str(exc))]
            if isinstance(exc, BG.Hang):
                return [("hang", disc, str(exc))]
            from mc import lib

            return [("raises", disc + "," + lib.exc_site(exc), repr(exc))]
        if any(m is None for m in delivered):
            return [("none-delivered", disc, "callback received None")]
        fails = []
        views = [safe_view(m) for m in delivered]
        for v in views:
            if v[0] == "unviewable" or not gen.has(v):
                fails.append(("not-genuine", disc, "delivered %r which is no well-formed known element of the input" % (v,)))
        if T is not None and buf.data_len > T:
            fails.append(("retention", disc, "data_len=%d > T=%d after process" % (buf.data_len, T)))
        return fails

    def count_numbered(delivered):
        return sum(1 for m in delivered if safe_view(m) in nset)

    def check_order(nd, delivered, pos):
        """numbered messages must come exactly once, in order; all due ones by the deadline."""
        fails = []
        disc = "threshold=%s" % tname
        got = [safe_view(m) for m in delivered if m is not None]
        got = [v for v in got if v in nset]
        want_next = nviews[nd : nd + len(got)]
        if got != want_next:
            fails.append(("order-after-corruption", disc, "numbered messages delivered %r, expected next %r" % ([v[1] for v in got], [v[1] for v in want_next])))
        elif T is not None and pos - corrupt_end > T:
            due = sum(1 for e, _ in numbered if e <= pos)
            if nd + len(got) < due:
                fails.append(("not-delivered-after-corruption", disc, "at pos %d (%d chars after the corrupt element, T=%d) %d numbered messages are complete but only %d delivered" % (pos, pos - corrupt_end, T, due, nd + len(got))))
        return fails

    def full(i, nd, k, delivered, buf, exc):
        f = check_edge(i, nd, k, delivered, buf, exc)
        if f:
            return f
        return check_order(nd, delivered, i + k)

    full.count = count_numbered
    return full


def explore_b(S, T, chk, mode):
    """mode: 'graph' -> all partitions; else a list of piece lists (feeding schedules)."""
    if mode == "graph":
        # nd must count numbered messages only: wrap explore with a counting shim
        return _explore_counting(S, T, chk)
    stats = dict(states=0, transitions=0, violations=[], capped=False)
    hung = 0
    for pieces in mode:
        b = BG.make_buffer(T)
        i = nd = 0
        done = []
        for p in pieces:
            d = []
            exc = BG.guarded_process(b, p, d)
            stats["transitions"] += 1
            stats["states"] += 1
            done.append(p)
            fails = chk(i, nd, len(p), d, b, exc)
            if fails:
                stats["violations"].append((fails, list(done)))
                if isinstance(exc, (BG.Hang, BG.Livelock)):
                    hung += 1
                break
            i += len(p)
            nd += chk.count(d)
        if hung >= 3:
            stats["capped"] = True
            break  # every further schedule would burn the watchdog again
    return stats


def _explore_counting(S, T, chk):
    import copy
    from collections import deque

    n = len(S)
    b0 = BG.make_buffer(T)
    init = (0, BG.snap(b0), 0)
    store = {init: b0}
    parent = {init: None}
    fr = deque([init])
    tr = 0
    viol = []
    hangs = 0
    while fr:
        st = fr.popleft()
        i, _, nd = st
        buf = store.pop(st)
        for k in range(1, n - i + 1):
            b = copy.deepcopy(buf)
            d = []
            exc = BG.guarded_process(b, S[i : i + k], d)
            tr += 1
            fails = chk(i, nd, k, d, b, exc)
            if fails:
                viol.append((fails, BG.path_to(parent, st, S) + [S[i : i + k]]))
                if isinstance(exc, BG.Hang):
                    hangs += 1
                    if hangs >= 3:
                        return dict(states=len(parent), transitions=tr, violations=viol, capped=True)
                continue
            ns = (i + k, BG.snap(b), nd + chk.count(d))
            if ns not in parent:
                parent[ns] = (st, k)
                store[ns] = b
                fr.append(ns)
    return dict(states=len(parent), transitions=tr, violations=viol, capped=False)


# ---------------------------------------------------------------------------
# corpus


def classify_stream(frs):
    """returns (S, modeA?, numbered) for a fragment sequence."""
    S = "".join(frs)
    pos = 0
    valid_spans = []
    for f in frs:
        if f in VALID:
            valid_spans.append((pos, pos + len(f), f))
        pos += len(f)
    starts = known_tag_starts(S)
    ok = True
    for s in starts:
        if not any(a == s or (a < s < b) for a, b, _ in valid_spans):
            ok = False
    # inside V2 no known message tag occurs except its own start; V3/V1 likewise
    for a, b, f in valid_spans:
        inner = [s for s in starts if a < s < b]
        if inner:
            ok = False
    numbered = [(b, X.view_of_xml(f)) for a, b, f in valid_spans]
    return S, ok, numbered


def frag_streams(n):
    for frs in itertools.product(FRAGS, repeat=n):
        yield frs


def feeds(S, extra_cuts=True):
    out = [[S], [c for c in S]]
    if extra_cuts:
        for c in range(1, len(S)):
            out.append([S[:c], S[c:]])
    return out


BASES = [
    '<getProperties version="1.7" device="cam" name="EXPOSE"/>',
    '<setTextVector device="d" name="n" state="Ok" message="a &gt; b"><oneText name="e1">v1</oneText><oneText name="e2">v&amp;2</oneText></setTextVector>',
    '<setLightVector device="d" name="l" state="Alert"><oneLight name="l1">Ok</oneLight><oneLight name="l2">Busy</oneLight></setLightVector>',
    '<defNumberVector device="d" name="n" state="Idle" perm="rw"><defNumber name="x" format="%5.2f" min="0" max="9" step="1">1.5</defNumber></defNumberVector>',
    # a BLOB vector cut anywhere (the one kind a receiver might be tempted to treat specially because it is usually long)
    '<setBLOBVector device="d" name="b" state="Ok"><oneBLOB name="a" size="3" format=".x">QUJD</oneBLOB></setBLOBVector>',
]
INVALID_WF = [
    '<setSwitchVector device="d" name="s" state="Ok"><oneSwitch name="a">Maybe</oneSwitch></setSwitchVector>',
    '<setTextVector device="d" name="n"><oneText name="e">v</oneText></setTextVector>',
    '<getProperties/>',
    '<defTextVector device="d" name="n" state="Purple" perm="rw"/>',
    '<getProperties version="1.7"><br/></getProperties>',
    '<setTextVector device="d" name="n" state="Ok"><oneTexd name="e">v</oneTexd></setTextVector>',
    '<newNumberVector device="d" name="n"><oneNumber name="x">1</oneNumber><oneText name="y">z</oneText></newNumberVector>',
    # unknown elements whose tag name merely BEGINS like the tag of the valid messages that follow them
    '<pingReplyq/>',
    '<pingReplyx7 k="1"/>',
    '<pingReply2>junk</pingReply2>',
]


def numbered_msg(j):
    return '<pingReply uid="M%d"/>' % j


def trunc_stream(corrupt, T):
    """corrupt element + numbered valid messages until T+64+ further chars."""
    S = corrupt
    numbered = []
    j = 0
    while len(S) - len(corrupt) < T + 64 + 24:
        m = numbered_msg(j)
        sep = ("", "\n")[j % 2]
        S += m
        numbered.append((len(S), X.view_of_xml(m)))
        S += sep
        j += 1
    return S, numbered


def trunc_cases(tier):
    """yield (label, corrupt_text)"""
    for bi, b in enumerate(BASES):
        step = 1
        for p in range(1, len(b), step):
            yield "trunc:%d@%d" % (bi, p), b[:p]
    for ii, w in enumerate(INVALID_WF):
        yield "invalid-wf:%d" % ii, w


LONGTAG = [
    '<defSwitchVector device="d" name="n" state="Ok" perm="rw" rule="AnyOfMany"/>',
    '<defNumberVector device="d" name="n" state="Ok" perm="rw"/>',
    '<newSwitchVector device="d" name="n"><oneSwitch name="a">On</oneSwitch></newSwitchVector>',
    '<newNumberVector device="d" name="n"/>',
    '<setSwitchVector device="d" name="n" state="Ok"/>',
    '<setNumberVector device="d" name="n" state="Busy"><oneNumber name="x">1.5</oneNumber></setNumberVector>',
    '<setLightVector device="d" name="l" state="Ok"><oneLight name="a">Ok</oneLight><oneLight name="b">Busy</oneLight></setLightVector>',
    '<defLightVector device="d" name="l" state="Ok"><defLight name="a">Ok</defLight></defLightVector>',
    '<delProperty device="d"/>',
    '<enableBLOB device="d">Also</enableBLOB>',
]


def _numvec(text):
    return '<newNumberVector device="d" name="n"><oneNumber name="x">%s</oneNumber></newNumberVector>' % text


# complete, well-formed elements whose VALUES are pathological for a validator (long runs of one character class
# ending in something that does not belong there - the shape on which a backtracking matcher explodes), for an XML
# parser (depth, width) or for a decoder.  Whether each is a valid message does not matter: processing must return
# promptly, deliver nothing that is not genuine and go on with the messages around it.
PATHO = [
    ("digits-then-letter", _numvec("1" * 400 + "x")),
    ("digits-dots", _numvec("1." * 200)),
    ("dots", _numvec("." * 400)),
    ("colon-fields-then-letter", _numvec("1:" * 200 + "x")),
    ("blank-run-then-letter", _numvec("1" + " " * 400 + "x")),
    ("separator-runs", _numvec("1" + ": ;" * 50 + "2")),
    ("signs", _numvec("+-" * 70 + "1")),
    ("exponent-run", _numvec("1e" + "9" * 150)),
    ("digits-valid", _numvec("9" * 400)),
    ("switch-run", '<newSwitchVector device="d" name="n"><oneSwitch name="a">%s</oneSwitch></newSwitchVector>' % ("On" * 100)),
    ("state-run", '<setNumberVector device="d" name="n" state="%s"><oneNumber name="e">1</oneNumber></setNumberVector>' % ("Ok" * 100)),
    ("base64-then-junk", '<newBLOBVector device="d" name="n"><oneBLOB name="a" size="3" format=".x">%s!</oneBLOB></newBLOBVector>' % ("QUJD" * 300)),
    ("size-run", '<newBLOBVector device="d" name="n"><oneBLOB name="a" size="%s" format=".x">QUJD</oneBLOB></newBLOBVector>' % ("9" * 200)),
    ("deep-nesting", '<delProperty device="d">%s%s</delProperty>' % ("<b>" * 150, "</b>" * 150)),
    ("many-attributes", "<enableBLOB device=\"d\" %s>Also</enableBLOB>" % " ".join('a%d="v"' % i for i in range(150))),
    ("many-children", '<newNumberVector device="d" name="n">%s</newNumberVector>' % "".join('<oneNumber name="x%d">1.5</oneNumber>' % i for i in range(60))),
    ("timestamp-run", '<setLightVector device="d" name="n" state="Ok" timestamp="%s"><oneLight name="e">Ok</oneLight></setLightVector>' % ("2020-01-01T" * 30)),
]


def patho_check(res, record):
    for label, elem in PATHO:
        S = V1 + elem + "\n" + V2
        for tname, T in (("2048", 2048), ("None", None)):
            if T is not None and len(elem) > T:
                continue
            sched = [[S], [S[j : j + 1024] for j in range(0, len(S), 1024)], [S[j : j + 64] for j in range(0, len(S), 64)], [V1 + elem, "\n" + V2]]
            for pieces in sched:
                out = BG.run_pieces(pieces, T, cpu_limit=2.0)
                res["streams"] += 1
                res["modeB"] += 1
                res["transitions"] += len(out)
                delivered = [m for d, exc, dl, data in out for m in d]
                res["deliveries"] += len(delivered)
                fails = []
                for d, exc, dl, data in out:
                    if isinstance(exc, (BG.Hang, BG.Livelock)):
                        fails.append(("hang", "pathological=%s" % label, "process() did not return within the CPU limit: %r" % (exc,)))
                    elif exc is not None:
                        from mc import lib

                        fails.append(("raises", "pathological=%s,%s" % (label, lib.exc_site(exc)), repr(exc)))
                if not fails:
                    views = [safe_view(m) for m in delivered]
                    genuine = [X.view_of_xml(V1), X.view_of_xml(V2)]
                    etag = elem[1:].split(" ", 1)[0]  # no pathological element shares its tag with V1 / V2
                    odd = [v for v in views if v not in genuine and v[0] != etag]
                    if odd or sum(1 for v in views if v[0] == etag) > 1:
                        fails.append(("not-genuine", "pathological=%s" % label, "delivered %r" % (odd[:2] or views,)))
                    core = [v for v in views if v in genuine[:2]]
                    if core != genuine[:2]:
                        fails.append(("valid-message-lost", "pathological=%s" % label, "the valid messages around the element were delivered as %r" % (core,)))
                    if T is not None and out and out[-1][2] > T:
                        fails.append(("retention", "pathological=%s" % label, "%d characters retained, threshold %d" % (out[-1][2], T)))
                if fails:
                    record("patho:%s" % label, S, T, tname, fails, pieces, {"mode": "patho", "label": label})


def longtag_streams():
    """valid messages of the kinds the fragment alphabet does not contain (the longest tag names, and the vector
    whose child tag is also a top-level tag) between non-imitating junk: strict promptness under ALL partitions"""
    for k, m in enumerate(LONGTAG):
        junk = ("ab<c> &;", "\n", "<?x", "]]>>")[k % 4]
        yield (junk, m, junk, V1)


def shards(tier, seed):
    sh = []
    # (a) fragment sequences with full graphs
    n_graph = 2 if tier == "quick" else 3
    for fi in range(len(FRAGS)):
        for part in range(4):
            sh.append((tier, "frag-graph", n_graph, fi, part))
    for fi in range(len(FRAGS)):
        sh.append((tier, "frag-feed", n_graph + 1, fi))
    for k in range(len(LONGTAG)):
        sh.append((tier, "longtag", k))
    sh.append((tier, "transport", 0))
    sh.append((tier, "patho", 0))
    cases = list(trunc_cases(tier))
    nshard = 61  # prime: coprime with the case strides below, so heavy cases spread over shards
    heavy = [(tier, "trunc", s, nshard) for s in range(nshard)]
    # longest-running shards first, so that the pool does not end on a straggler
    return heavy + sh


def run_shard(shard):
    tier, what = shard[0], shard[1]
    res = {"states": 0, "transitions": 0, "streams": 0, "graphs": 0, "modeA": 0, "modeB": 0, "deliveries": 0, "violations": [], "samples": [], "counters": {}}
    sig = {}

    hangs = [0]

    class TooManyHangs(Exception):
        pass

    def record(label, S, T, tname, fails, pieces, extra):
        if any(c in ("hang", "livelock") for c, _, _ in fails):
            hangs[0] += 1
        for clause, disc, whatmsg in fails:
            key = (clause, disc)
            if key in sig:
                sig[key]["count"] += 1
                continue
            sig[key] = {
                "clause": clause,
                "disc": disc,
                "count": 1,
                "what": "%s: stream %r pieces(lens) %r: %s" % (label, S[:200], [len(p) for p in pieces][:20], whatmsg),
                "replay": dict(extra, stream=S, T=T, tname=tname, pieces=pieces),
            }

    if what == "transport":
        # garbage BYTES (not text) through the real TCP client and server handlers: whatever byte values arrive, in
        # whatever pieces, the receive loop survives and the valid messages around the junk are delivered
        from indi.routing import Device, Router
        from indi.transport.client.tcp import ConnectionHandler as ClientH
        from indi.transport.server.tcp import ConnectionHandler as ServerH

        from mc.core import vloop as VL

        junks = [b"\xff\xfe\x00", b"\xc3", b"\xb0 \xe9", b"\xe2\x82", b"\x80\x81\xbf", b"caf\xc3\xa9 \xf0\x9f\x98", bytes(range(128, 256))]
        v1 = V1.encode()
        for jk in junks:
            data = jk + v1 + jk + V2.encode() + jk
            bfeeds = [[data], [bytes([b]) for b in data]] + [[data[:c], data[c:]] for c in range(1, len(data))]
            for side in ("client", "server"):
                for pieces in bfeeds:
                    loop = VL.VLoop().install()
                    try:
                        got = []
                        ep = VL.Endpoint(loop, "g")
                        if side == "client":
                            h = ClientH(ep.reader, ep.writer, got.append)
                        else:
                            router = Router()

                            class RecD(Device):
                                def accepts(self, device):
                                    return True

                                def message_from_client(self, message):
                                    got.append(message)

                            router.register_device(RecD())
                            h = ServerH(ep.reader, ep.writer, router)
                        task = loop.create_task(h.wait_for_messages())
                        loop.quiesce()
                        for pz in pieces:
                            ep.feed(pz)
                            loop.quiesce()
                        res["transitions"] += len(pieces)
                        res["streams"] += 1
                        kinds = [type(m).__name__ for m in got]
                        if task.done():
                            exc = task.exception() if not task.cancelled() else None
                            record("bytes%r" % (jk[:6],), data.decode("latin1"), 2048, "2048", [("raises", "transport=%s,bytes" % side, "receive loop ended: %r" % (exc,))], [p.decode("latin1") for p in pieces][:6], {"mode": "transport"})
                        elif side == "client" and kinds != ["GetProperties", "SetTextVector"] or side == "server" and kinds != ["GetProperties"]:
                            # (a setTextVector is a device message: the server side hands only the getProperties to devices)
                            record("bytes%r" % (jk[:6],), data.decode("latin1"), 2048, "2048", [("late-or-lost-around-junk", "transport=%s,bytes" % side, "delivered %r" % (kinds,))], [p.decode("latin1") for p in pieces][:6], {"mode": "transport"})
                    finally:
                        loop.teardown()
        # segments WITHOUT any '>' after a truncated element and a valid message: the receive loops must keep processing
        # (junk recovery needs the later, '>'-free data to push the truncated element over the threshold)
        for side in ("client", "server"):
            for filler in (b"x" * 2200, b"abc def 123 " * 190, bytes(range(48, 58)) * 230, b"\x00\xff" * 1100):
                for trunc in (b'<setTextVector device="d" name="n" state="Ok"', b'<getProperties version="1.7" device="tr', b"<newNumberVector"):
                    data_parts = [trunc, V1.encode(), filler[:700], filler[700:1500], filler[1500:]]
                    loop = VL.VLoop().install()
                    try:
                        got = []
                        ep = VL.Endpoint(loop, "g")
                        if side == "client":
                            h = ClientH(ep.reader, ep.writer, got.append)
                        else:
                            router = Router()

                            class RecF(Device):
                                def accepts(self, device):
                                    return True

                                def message_from_client(self, message):
                                    got.append(message)

                            router.register_device(RecF())
                            h = ServerH(ep.reader, ep.writer, router)
                        task = loop.create_task(h.wait_for_messages())
                        loop.quiesce()
                        for pz in data_parts:
                            ep.feed(pz)
                            loop.quiesce()
                        res["transitions"] += len(data_parts)
                        res["streams"] += 1
                        kinds = [type(m).__name__ for m in got]
                        S_ = b"".join(data_parts).decode("latin1")
                        if task.done():
                            record("gtfree", S_, 2048, "2048", [("raises", "transport=%s,segments-without-gt" % side, "receive loop ended")], [p.decode("latin1") for p in data_parts][:3], {"mode": "transport"})
                        elif kinds != ["GetProperties"]:
                            record("gtfree", S_, 2048, "2048", [("late-or-lost-after-corruption", "transport=%s,segments-without-gt" % side, "truncated element, valid message, then %d characters without '>': delivered %r" % (len(filler), kinds))], [p.decode("latin1") for p in data_parts][:3], {"mode": "transport"})
                        elif h.buffer.data_len > 2048:
                            record("gtfree", S_, 2048, "2048", [("retention", "transport=%s,segments-without-gt" % side, "%d characters retained" % h.buffer.data_len)], [p.decode("latin1") for p in data_parts][:3], {"mode": "transport"})
                    finally:
                        loop.teardown()
        # the TTY transport reads LINES: junk lines of every shape (empty, CR LF only, blanks, a lone '<', binary junk,
        # half a tag) before / between / after valid one-line messages, every ordering of <= 2 junk lines per gap
        import io as _io

        from indi.transport.server.tty import ConnectionHandler as TtyH

        junk_lines = ["\n", "\r\n", "   \n", "<\n", "\x00\xff junk &;\n", "<getProperties\n", "</oneText>\n", "]]>\n"]
        valid = ['<getProperties version="1.7" device="A"/>\n', '<getProperties version="1.7" device="B"/>\n', '<getProperties version="1.7" device="C"/>\n']
        gaps = [()] + [(j,) for j in junk_lines] + list(itertools.permutations(junk_lines[:4], 2))
        for gap in gaps:
            for where in (0, 1, 2, 3):
                lines = []
                for k in range(3):
                    if where == k:
                        lines += list(gap)
                    lines.append(valid[k])
                if where == 3:
                    lines += list(gap)
                loop = VL.VLoop().install()
                try:
                    got = []
                    router = Router()

                    class RecT(Device):
                        def accepts(self, device):
                            return True

                        def message_from_client(self, message):
                            got.append(message.device)

                    router.register_device(RecT())
                    src = VL.LineSource()
                    in_ctl = VL.CtlExecutor()
                    h = TtyH(router, VL.aio_text(src, loop, in_ctl), VL.aio_text(_io.StringIO(), loop, VL.CtlExecutor()))
                    task = loop.create_task(h.handle())
                    loop.quiesce()
                    for ln in lines:
                        src.supply(ln)
                        for _ in range(50):
                            loop.quiesce()
                            if len(in_ctl) and src.available():
                                in_ctl.run(0)
                            else:
                                break
                    loop.quiesce()
                    res["transitions"] += len(lines)
                    res["streams"] += 1
                    # "<getProperties" (half a tag) legitimately swallows what follows until the threshold: not judged
                    imitating = any(j.startswith("<getProperties") for j in gap)
                    if task.done():
                        exc = task.exception() if not task.cancelled() else None
                        record("tty-lines", "".join(lines), 2048, "2048", [("raises" if exc else "late-or-lost-around-junk", "transport=tty,junk-lines", "the TTY handler stopped after junk lines %r: %r" % (gap, exc))], lines[:8], {"mode": "transport"})
                    elif got != ["A", "B", "C"] and not imitating:
                        record("tty-lines", "".join(lines), 2048, "2048", [("late-or-lost-around-junk", "transport=tty,junk-lines", "junk lines %r at gap %d: delivered %r" % (gap, where, got))], lines[:8], {"mode": "transport"})
                finally:
                    loop.teardown()
        res["states"] = res["streams"]
        res["violations"] = list(sig.values())
        return res
    if what == "patho":
        patho_check(res, record)
        res["violations"] = list(sig.values())
        res["counters"]["pathological_elements"] = len(PATHO)
        return res
    if what == "longtag":
        frs = list(longtag_streams())[shard[2]]
        S = "".join(frs)
        pos = 0
        numbered = []
        for f in frs:
            pos += len(f)
            if f.startswith("<") and f[1:2].isalpha() and f.endswith(">"):
                numbered.append((pos, X.view_of_xml(f)))
        fit = max(len(f) for f in frs)  # smallest threshold every message of the stream fits
        for tname, T in (("fit", fit), ("2048", 2048), ("None", None)):
            base = make_check(S, tname, T, None, numbered, None)
            cnt = {"d": 0}

            def chk(i, nd, k, d, b, e, base=base, cnt=cnt):
                cnt["d"] += len(d)
                return base(i, nd, k, d, b, e)

            r = BG.explore(S, T, chk)
            res["streams"] += 1
            res["modeA"] += 1
            res["graphs"] += 1
            res["deliveries"] += cnt["d"]
            res["states"] += r["states"]
            res["transitions"] += r["transitions"]
            for fails, pieces in r["violations"]:
                record("longtag%r" % (frs[1][:24],), S, T, tname, fails, pieces, {"mode": "A", "numbered": numbered})
        res["violations"] = list(sig.values())
        return res
    if what in ("frag-graph", "frag-feed"):
        n, fi = shard[2], shard[3]
        seqs = []
        for m in range(1, n + 1) if what == "frag-graph" else (n,):
            for rest in itertools.product(FRAGS, repeat=m - 1):
                seqs.append((FRAGS[fi],) + rest)
        if what == "frag-graph":
            for x in EXTRA:
                seqs.append((FRAGS[fi], x))
                seqs.append((x, FRAGS[fi]))
            if fi == 0:
                seqs += [(x,) for x in EXTRA] + [(x, y) for x in EXTRA for y in EXTRA]
        if what == "frag-graph":
            part = shard[4]
            seqs = [q for k, q in enumerate(sorted(seqs, key=lambda q: -sum(len(x) for x in q))) if k % 4 == part]
        if True:
            for frs in seqs:
                S, modeA, numbered = classify_stream(frs)
                res["streams"] += 1
                res["modeA" if modeA else "modeB"] += 1
                ths = THRESHOLDS if what == "frag-graph" else ([THRESHOLDS[0], THRESHOLDS[3]] if tier == "thorough" else [THRESHOLDS[0]])
                for tname, T in ths:
                    fits = T is None or all(len(f) <= T for f in frs if f in VALID)
                    if modeA and fits:
                        base = make_check(S, tname, T, None, numbered, None)
                        cnt = {"d": 0}

                        def chk(i, nd, k, d, b, e, base=base, cnt=cnt):
                            cnt["d"] += len(d)
                            return base(i, nd, k, d, b, e)

                        if what == "frag-graph":
                            r = BG.explore(S, T, chk)
                        else:
                            r = dict(states=0, transitions=0, violations=[])
                            for pieces in feeds(S, False):
                                i = nd = 0
                                b = BG.make_buffer(T)
                                done = []
                                for p in pieces:
                                    d = []
                                    exc = BG.guarded_process(b, p, d)
                                    r["transitions"] += 1
                                    done.append(p)
                                    f = chk(i, nd, len(p), d, b, exc)
                                    if f:
                                        r["violations"].append((f, list(done)))
                                        break
                                    i += len(p)
                                    nd += len(d)
                            r["states"] = r["transitions"]
                        res["deliveries"] += cnt["d"]
                        extra = {"mode": "A", "numbered": numbered}
                    else:
                        chk = make_check_b(S, tname, T, [], 0)
                        r = explore_b(S, T, chk, "graph" if what == "frag-graph" else feeds(S, False))
                        extra = {"mode": "B", "numbered": [], "corrupt_end": 0}
                    res["states"] += r["states"]
                    res["transitions"] += r["transitions"]
                    res["graphs"] += 1 if what == "frag-graph" else 0
                    for fails, pieces in r["violations"]:
                        record("frags%r" % (frs,), S, T, tname, fails, pieces, extra)
                    if hangs[0] >= 6:
                        res["violations"] = list(sig.values())
                        res["capped"] = 1
                        return res  # the finding is recorded; every further graph would burn the watchdog again
        if fi == 0 and what == "frag-graph" and shard[4] == 0:
            res["samples"].append({"fragment_sequence": [FRAGS[0], FRAGS[3]], "thresholds": [t for t, _ in THRESHOLDS]})
    else:
        s, nshard = shard[2], shard[3]
        cases = list(trunc_cases(tier))
        for ci, (label, corrupt) in enumerate(cases):
            if ci % nshard != s:
                continue
            for tname, T in (("64", 64), ("2048", 2048), ("None", None)):
                if tier == "quick" and T == 2048 and ci % 16 != 3:
                    continue
                Tgen = T if T is not None else 64
                S, numbered = trunc_stream(corrupt, Tgen)
                chk = make_check_b(S, tname, T, numbered, len(corrupt))
                res["streams"] += 1
                res["modeB"] += 1
                if Tgen == 64 and (tier == "thorough" or ci % 12 == 0):
                    r = explore_b(S, T, chk, "graph")
                    res["graphs"] += 1
                else:
                    fs = [[S], [c for c in S], [S[j : j + 7] for j in range(0, len(S), 7)], [S[j : j + 1024] for j in range(0, len(S), 1024)]]
                    # per message boundary
                    cuts = [0, len(corrupt)] + [e for e, _ in numbered] + [len(S)]
                    cuts = sorted(set(cuts))
                    fs.append([S[a:b] for a, b in zip(cuts, cuts[1:]) if b > a])
                    step = 1 if T != 2048 else (9 if tier == "thorough" else 97)
                    for c in range(1, len(S), step):
                        fs.append([S[:c], S[c:]])
                    r = explore_b(S, T, chk, fs)
                res["states"] += r["states"]
                res["transitions"] += r["transitions"]
                for fails, pieces in r["violations"]:
                    record(label, S, T, tname, fails, pieces, {"mode": "B", "numbered": numbered, "corrupt_end": len(corrupt)})
                if hangs[0] >= 6:
                    res["violations"] = list(sig.values())
                    res["capped"] = 1
                    return res
            if ci == 40:
                res["samples"].append({"corrupt_element": corrupt, "followed_by": [numbered_msg(0), numbered_msg(1), "..."], "thresholds": [64, 2048, None]})
    res["violations"] = list(sig.values())
    return res


def finish(tier, seed, m):
    cov = {
        "states": m["states"],
        "transitions": m["transitions"],
        "traces_validated_against_impl": m["transitions"],
        "streams": m["streams"],
        "all_partition_graphs": m["graphs"],
        "streams_strict_promptness_mode": m["modeA"],
        "streams_corruption_mode": m["modeB"],
        "deliveries_in_promptness_mode": m["deliveries"],
        "samples": m["samples"][:4],
        "exhaustive": not m.get("capped", 0),
        "explanation": "transitions = process() calls executed on the real Buffer; graphs explored to fixpoint (all partitions); "
        "longer streams are fed whole / per character / fixed chunks / every single cut (stated in DESIGN.md C11)",
    }
    errs = []
    if m["modeA"] < 50 or m["deliveries"] < 100:
        errs.append("promptness mode barely exercised")
    cov["_vacuity_errors"] = errs
    return cov


def _t(x):
    if isinstance(x, list):
        return tuple(_t(i) for i in x)
    return x


def replay(rep):
    if rep.get("mode") == "patho":
        r = run_shard(("quick", "patho", 0))
        return [{"clause": v["clause"], "disc": v["disc"], "what": v["what"]} for v in r["violations"]]
    if rep.get("mode") == "transport":
        r = run_shard(("quick", "transport", 0))
        return [{"clause": v["clause"], "disc": v["disc"], "what": v["what"]} for v in r["violations"]]
    S, T, tname = rep["stream"], rep["T"], rep["tname"]
    numbered = [(e, _t(v)) for e, v in rep["numbered"]]
    out = []
    if rep["mode"] == "A":
        chk = make_check(S, tname, T, None, numbered, None)
        count = len
    else:
        chk = make_check_b(S, tname, T, numbered, rep["corrupt_end"])
        count = chk.count
    b = BG.make_buffer(T)
    i = nd = 0
    for p in rep["pieces"]:
        d = []
        exc = BG.guarded_process(b, p, d)
        fails = chk(i, nd, len(p), d, b, exc)
        for c, dd, w in fails:
            out.append({"clause": c, "disc": dd, "what": w})
        if fails:
            break
        i += len(p)
        nd += count(d)
    return out
