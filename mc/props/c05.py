"""C05 - device messages fan out to every client, subject to its BLOB policy.

(1) Explicit-state model checking of the real Router as in C04, with every
    device-originated message kind sent in every reachable state.
(2) TLC enumerates the complete graph of mc/tla/Router.tla (checking the model's own
    invariants: unregistered => no policy, never to the sender, policy independence) and
    prints every edge; EVERY edge is replayed on a real Router (state reached by the
    BFS-tree path of TLC's own graph) and deliveries / successor state compared.
"""
from mc.gen import messages as G
from mc.props import c04
from mc.props import router_common as R

LEVEL = "model_checking"
ASSUMPTIONS = [
    "universe: 2 (quick) / 3 (thorough) clients x device names {A, B, none, unknown} x policies {unset, Never, Also, Only}",
    "TLC 1.8.0 run with -workers 1; its PrintT edge export is parsed by mc/core/tlc.py",
]
KINDS = [k for k in G.ALL_TAGS if G.KINDS[k].origin in ("device", "both")]
# vector messages without child elements (a state-only update, an empty definition): what a message IS does not depend
# on how many elements it lists
KINDS += ["setBLOBVector~0", "setTextVector~0", "setNumberVector~0", "defBLOBVector~0", "defSwitchVector~0"]
NSH = 15


def shards(tier, seed):
    return [(tier, "graph", i) for i in range(NSH)] + [(tier, "tlc", 0), (tier, "reentrant", 0)]


def reentrant_fanout():
    """a client that reacts synchronously inside message_from_device (the in-process SnoopingClient, a Proxy) by
    sending a request, which makes a device publish another message while the first fan-out is still running.
    Every client must get both messages exactly according to ITS policy, whatever is in flight."""
    import itertools

    import indi.message as M
    from indi.routing import Client, Device, Router

    res = {"states": 0, "transitions": 0, "violations": [], "samples": [], "counters": {}, "sends": 0, "deliveries": 0, "nondeliveries": 0}
    sig = {}
    pols = (None, "Never", "Also", "Only")
    for outer_blob, nested_blob in itertools.product((True, False), repeat=2):
        for pa, pb, pc in itertools.product(pols, repeat=3):
            for reactor in (0, 1, 2):
                router = Router()
                log = []

                def mk(blob, tag):
                    from indi.message import one_parts

                    if blob:
                        return M.SetBLOBVector(device="D", name=tag, state="Ok", children=[one_parts.OneBLOB(name="a", size=2, format=".x", value="YWI=")])
                    return M.SetTextVector(device="D", name=tag, state="Ok", children=[one_parts.OneText(name="a", value="v")])

                nested_msg = mk(nested_blob, "NESTED")
                outer_msg = mk(outer_blob, "OUTER")

                class Dev(Device):
                    def accepts(self, device):
                        return True

                    def message_from_client(self, message):
                        if isinstance(message, M.GetProperties):
                            router.process_message(nested_msg, sender=self)

                class C(Client):
                    def __init__(self, idx):
                        self.idx, self.reacted = idx, False

                    def message_from_device(self, message):
                        log.append((self.idx, message.name))
                        if self.idx == reactor and not self.reacted and message is outer_msg:
                            self.reacted = True
                            router.process_message(M.GetProperties(version="1.7", device="D"), sender=self)

                dev = Dev()
                router.register_device(dev)
                cl = [C(i) for i in range(3)]
                for c, p in zip(cl, (pa, pb, pc)):
                    router.register_client(c)
                    if p:
                        router.process_message(M.IndiMessage.from_string('<enableBLOB device="D">%s</enableBLOB>' % p), sender=c)
                exc = None
                try:
                    router.process_message(outer_msg, sender=dev)
                except Exception as e:  # noqa
                    exc = e
                res["transitions"] += 1
                res["sends"] += 2

                def wants(p, blob):
                    p = p or "Never"
                    return p in ("Also", "Only") if blob else p in ("Never", "Also")

                want = []
                for i, p in enumerate((pa, pb, pc)):
                    if wants(p, outer_blob):
                        want.append((i, "OUTER"))
                reacted = wants((pa, pb, pc)[reactor], outer_blob)
                if reacted:
                    for i, p in enumerate((pa, pb, pc)):
                        if wants(p, nested_blob):
                            want.append((i, "NESTED"))
                        # the reactor's getProperties is also relayed to the other clients (non-BLOB traffic)
                        if i != reactor and wants(p, False):
                            want.append((i, None))
                res["deliveries"] += len(log)
                got = sorted(log, key=repr)
                if exc is not None:
                    from mc import lib

                    key = ("raises", "reentrant," + lib.exc_site(exc))
                    what = repr(exc)
                elif got != sorted(want, key=repr):
                    key = ("reentrant-delivery", "outer=%s,nested=%s" % ("blob" if outer_blob else "text", "blob" if nested_blob else "text"))
                    what = "policies %r reactor %d: deliveries %r, expected %r" % ((pa, pb, pc), reactor, got, sorted(want, key=repr))
                else:
                    continue
                if key in sig:
                    sig[key]["count"] += 1
                else:
                    sig[key] = {"clause": key[0], "disc": key[1], "what": what, "count": 1, "replay": {"reentrant": True}}
    real_connection_fanout(res, sig)
    faulty_client_fanout(res, sig)
    shared_message_fanout(res, sig)
    res["violations"] = list(sig.values())
    res["states"] = 1
    return res


def _sig(sig, key, what):
    if key in sig:
        sig[key]["count"] += 1
    else:
        sig[key] = {"clause": key[0], "disc": key[1], "what": what, "count": 1, "replay": {"reentrant": True}}


def faulty_client_fanout(res, sig):
    """histories with a FAILING client: a client whose handler raises k times (the exception escapes to whoever routed
    the message); every later device message still reaches every registered client exactly once"""
    import indi.message as M
    from indi.message import one_parts
    from indi.routing import Client, Router

    for k in (1, 2, 3):
        for pos in (0, 1, 2):  # position of the failing client in registration order
            router = Router()
            logs = {}

            class Rec(Client):
                def __init__(self, name, fails=0):
                    self.name, self.fails = name, fails
                    logs[name] = []

                def message_from_device(self, message):
                    if self.fails:
                        self.fails -= 1
                        raise RuntimeError("client failure")
                    logs[self.name].append(message.children[0].value)

            clients = [Rec("a"), Rec("b")]
            clients.insert(pos, Rec("flaky", fails=k))
            for c in clients:
                router.register_client(c)
            exc = None
            for i in range(k + 2):
                try:
                    router.process_message(M.SetTextVector(device="D", name="V", state="Ok", children=[one_parts.OneText(name="a", value="m%d" % i)]), sender=None)
                except RuntimeError:
                    pass
                except Exception as e:  # noqa
                    exc = e
            res["transitions"] += k + 2
            res["sends"] += k + 2
            later = ["m%d" % i for i in range(k, k + 2)]
            for name, log in logs.items():
                res["deliveries"] += len(log)
                if exc is not None or [v for v in log if v in later] != later or len(set(log)) != len(log):
                    _sig(sig, ("delivery-set", "after-a-client-failed"), "failing client at position %d failed %d times: client %s got %r, expected (at least) %r once each (%r)" % (pos, k, name, log, later, exc))


def shared_message_fanout(res, sig):
    """a driver's in-process snooping client is registered next to a recording client: what the recorder receives (as
    serialised at the moment of delivery) must not depend on the snooping client's policy or registration position"""
    import base64

    import indi.message as M
    from indi.device.values import BLOB
    from indi.routing import Client

    from mc.core import e2e
    from mc.gen import deploy as DP
    from mc.ref import xmlview as X

    payload = bytes(range(256)) * 3
    outcomes = {}
    for first in ("snoop", "recorder"):
        for pol in (None, "Never", "Also", "Only"):
            w = e2e.World(DP.deployment(variant="blob", ndev=2))
            try:
                got = []

                class Rec(Client):
                    def message_from_device(self, message):
                        got.append(message.to_string().decode("latin1"))

                rec = Rec()
                if first == "recorder":
                    w.router.register_client(rec)
                snoop = w.devices[1].snoop_device("DEV0")
                w.settle()
                if first == "snoop":
                    w.router.register_client(rec)
                w.router.process_message(M.EnableBLOB(device="DEV0", value="Also"), sender=rec)
                if pol:
                    w.router.process_message(M.EnableBLOB(device="DEV0", value=pol), sender=snoop)
                del got[:]
                exc = None
                try:
                    vec = getattr(w.devices[0], w.specs[0]["groups"][0]["attr"]).vectors["t"]
                    vec.a.value = BLOB(payload, ".bin")
                    w.settle()
                    vec.state_ = "Busy"
                    w.settle()
                except Exception as e:  # noqa
                    exc = e
                res["transitions"] += 2
                res["sends"] += 2
                res["deliveries"] += len(got)
                blobs = []
                for text in got:
                    if "<setBLOBVector" in text:
                        body = text.split("<oneBLOB", 1)[1].split(">", 1)[1].split("</oneBLOB>")[0] if "</oneBLOB>" in text else ""
                        try:
                            blobs.append(base64.b64decode(body))
                        except Exception:
                            blobs.append(None)
                d = "snooping-client-%s,registered-%s" % (pol or "unset", "first" if first == "snoop" else "second")
                if exc is not None:
                    from mc import lib

                    _sig(sig, ("raises", "shared-message," + lib.exc_site(exc)), repr(exc))
                elif len(blobs) != 2 or any(b != payload for b in blobs):
                    _sig(sig, ("delivery-content", d), "an Also client received %d setBLOBVector(s) with payload sizes %r, expected 2 x %d bytes" % (len(blobs), [None if b is None else len(b) for b in blobs], len(payload)))
                outcomes[(first, pol)] = got
            finally:
                w.close()
    ref = outcomes.get(("snoop", None))
    for k2, got in outcomes.items():
        if got != ref:
            _sig(sig, ("policy-independence", "snooping-client-%s,registered-%s" % (k2[1] or "unset", "first" if k2[0] == "snoop" else "second")), "what an Also client receives differs from the run with an unset snooping client registered first")


def real_connection_fanout(res, sig):
    """the clients are the library's own TCP connection handlers (real StreamWriter over a fake transport): every device
    message reaches every connection exactly once, also when one of them applies back-pressure (its drain() suspended)
    while the messages are routed - in one loop iteration or in several - and catches up later"""
    import indi.message as M
    from indi.message import one_parts
    from indi.routing import Router
    from indi.transport.server.tcp import ConnectionHandler as ServerH

    from mc.core import vloop as V
    from mc.ref import xmlview as X

    for slow in (None, 0, 1):
        for batch in (1, 3):
            for nmsg in (3, 5):
                loop = V.VLoop().install()
                try:
                    router = Router()
                    eps = [V.Endpoint(loop, "c%d" % i) for i in range(2)]
                    [ServerH(ep.reader, ep.writer, router) for ep in eps]
                    if slow is not None:
                        eps[slow].pause()
                    msgs = [M.SetTextVector(device="D", name="V", state="Ok", children=[one_parts.OneText(name="a", value="m%d" % i)]) for i in range(nmsg)]
                    exc = None
                    try:
                        for i in range(0, nmsg, batch):
                            for m in msgs[i : i + batch]:
                                router.process_message(m, sender=None)
                            loop.quiesce()
                        if slow is not None:
                            eps[slow].resume()
                        loop.quiesce()
                    except Exception as e:  # noqa
                        exc = e
                    res["transitions"] += nmsg
                    res["sends"] += nmsg
                    for ci, ep in enumerate(eps):
                        els, rest = X.split_elements(ep.written().decode("latin1"))
                        got = [e.split(">m")[1].split("<")[0] for e in els if ">m" in e]
                        res["deliveries"] += len(got)
                        if exc is not None or got != [str(i) for i in range(nmsg)]:
                            key = ("delivery-set", "real-tcp-connections,%s" % ("back-pressure" if slow is not None else "no-back-pressure"))
                            what = "slow connection %r, %d messages in batches of %d: connection %d got %r (%r)" % (slow, nmsg, batch, ci, got, exc)
                            if key in sig:
                                sig[key]["count"] += 1
                            else:
                                sig[key] = {"clause": key[0], "disc": key[1], "what": what, "count": 1, "replay": {"reentrant": True}}
                finally:
                    loop.teardown()


def check(model, ev, got, exc, exp):
    from mc import lib

    op = ev[0]
    if exc is not None:
        kind = ev[1] if op == "send" else op
        return [("raises", "kind=%s,%s" % (kind, lib.exc_site(exc)), "%r: %r" % (ev, exc))]
    if op != "send":
        return []
    to_dev, to_cli = exp
    gc = sorted(i for k, i in got if k == "c")
    fails = []
    _, kind, dev, sender = ev
    if gc != sorted(to_cli):
        # classify by the policy of a client where the outcome differs
        diff = sorted(set(gc) ^ set(to_cli)) or gc
        c = diff[0]
        pol = model.pol.get(c, {}).get(dev, "unset")
        if sender == ("c", c):
            why = "to-sender"
        elif gc.count(c) > 1:
            why = "duplicate"
        else:
            why = "got=delivered" if c in gc else "got=missing"
        bk = R.base_kind(kind)
        fails.append(("delivery-set", "kind=%s%s,policy=%s,%s" % ("setBLOBVector" if bk == "setBLOBVector" else ("getProperties" if bk == "getProperties" else "non-blob"), ",childless" if kind.endswith("~0") else "", pol, why), "%r: clients got %r, expected %r (policies %r)" % (ev, gc, sorted(to_cli), model.pol)))
    if R.base_kind(kind) != "getProperties":
        gd = [i for k, i in got if k == "d"]
        if gd:
            fails.append(("device-message-to-device", "kind=%s" % kind, "%r: devices got %r" % (ev, gd)))
    return fails


def run_shard(shard):
    tier, what, idx = shard
    n = 2 if tier == "quick" else 3
    if what == "graph":
        st = R.explore(n, KINDS, check, idx, NSH, primed=True)
        return c04.pack(st, n, idx)
    if what == "reentrant":
        return reentrant_fanout()
    return run_tlc(tier, n)


def replay_tlc_state(path, n):
    """reach a TLC state on a real router by TLC's own BFS-tree path"""
    s = R.Sys(n)
    s.router.register_device(s.devices[0])
    for act in path:
        apply_tlc(s, act)
    return s


def cidx(name):
    return int(name[1:]) - 1


def apply_tlc(s, act):
    from indi.message import EnableBLOB

    if act[0] == "reg":
        s.router.register_client(s.clients[cidx(act[1])])
    elif act[0] == "unreg":
        s.router.unregister_client(s.clients[cidx(act[1])])
    elif act[0] == "enable":
        from indi.message import IndiMessage

        m = IndiMessage.from_string(EnableBLOB(device=act[2], value=act[3]).to_string())
        s.router.process_message(m, sender=s.clients[cidx(act[1])])


def impl_state(s):
    reg = frozenset("c%d" % (c.idx + 1) for c in s.router.clients)
    pol = {}
    for i in range(len(s.clients)):
        c = s.clients[i]
        pm = s.router.blob_routing.get(c, {})
        pol["c%d" % (i + 1)] = {d: str(pm.get(d, "Unset")) for d in R.DEVNAMES}
    return reg, pol


def run_tlc(tier, n):
    from mc.core import tlc

    res = {"states": 0, "transitions": 0, "violations": [], "samples": [], "counters": {}, "sends": 0, "deliveries": 0, "nondeliveries": 0}
    sig = {}

    def viol(clause, disc, what, path):
        key = (clause, disc)
        if key in sig:
            sig[key]["count"] += 1
        else:
            sig[key] = {"clause": clause, "disc": disc, "what": what, "count": 1, "replay": {"tlc": True, "nclients": n, "path": path}}

    def key_of(reg, pol):
        return (reg, tuple(sorted((c, tuple(sorted(p.items()))) for c, p in pol.items())))

    parent = {}
    edges = 0
    summary = None
    nonblob = [k for k in KINDS if R.base_kind(k) != "setBLOBVector"]
    blobkinds = [k for k in KINDS if R.base_kind(k) == "setBLOBVector"]
    for e in tlc.run_edges("Router.tla", "Router%d.cfg" % n):
        if isinstance(e, dict):
            summary = e
            break
        reg, pol, act = e[1], e[2], e[3]
        src = key_of(reg, pol)
        if not parent:
            parent[src] = None
        if src not in parent:
            raise AssertionError("TLC edge from a state not yet reached: %r" % (e,))
        path = []
        x = src
        while parent[x] is not None:
            x, a = parent[x]
            path.append(a)
        path.reverse()
        edges += 1
        if act == "send":
            isblob, d, snd, deliver = e[4], e[5], e[6], e[7]
            dev = None if d == "none" else d
            kinds = blobkinds if isblob else nonblob
            s = replay_tlc_state(path, n)
            if key_of(*impl_state(s)) != src:
                viol("tlc-state-mismatch", "before-send", "impl %r vs TLC %r after %r" % (impl_state(s), (reg, pol), path), path)
                continue
            sender = ("d", 0) if snd == "dev" else ("c", cidx(snd))
            for kind in kinds:
                if R.msg_of(kind, dev) is None:
                    continue
                got, exc = s.apply(("send", kind, dev, sender))
                res["transitions"] += 1
                res["sends"] += 1
                gc = frozenset("c%d" % (i + 1) for k, i in got if k == "c")
                ncl = len([1 for k, i in got if k == "c"])
                res["deliveries"] += ncl
                res["nondeliveries"] += len(reg) - ncl
                if exc is not None:
                    from mc import lib

                    viol("raises", "kind=%s,%s" % (kind, lib.exc_site(exc)), repr(exc), path + [("send", kind, dev, sender)])
                elif gc != deliver or ncl != len(deliver):
                    viol("tlc-delivery-set", "kind=%s%s" % ("setBLOBVector" if isblob else ("getProperties" if kind == "getProperties" else "non-blob"), ",childless" if kind.endswith("~0") else ""), "TLC edge %r: impl delivered to %r x%d, model %r" % (e[3:], sorted(gc), ncl, sorted(deliver)), path + [("send", kind, dev, sender)])
        else:
            if act == "enable":
                a = ("enable", e[4], e[5], e[6])
                reg2, pol2 = e[7], e[8]
            else:
                a = (act, e[4])
                reg2, pol2 = e[5], e[6]
            s = replay_tlc_state(path, n)
            apply_tlc(s, a)
            res["transitions"] += 1
            dst = key_of(reg2, pol2)
            if key_of(*impl_state(s)) != dst:
                viol("tlc-successor-state", "action=%s" % act, "after %r + %r impl %r, TLC %r" % (path, a, impl_state(s), (reg2, pol2)), path + [a])
            if dst not in parent:
                parent[dst] = (src, a)
    res["states"] = len(parent)
    res["counters"]["tlc_edges"] = edges
    res["counters"]["tlc_distinct_states"] = summary["distinct"]
    res["counters"]["tlc_generated"] = summary["generated"]
    if summary["distinct"] != len(parent):
        raise AssertionError("TLC reports %d distinct states, edge stream reached %d" % (summary["distinct"], len(parent)))
    res["violations"] = list(sig.values())
    res["samples"].append({"tlc_edge": ["send", False, "A", "c1", ["c2"]], "replayed_with_kinds": nonblob[:3]})
    return res


def finish(tier, seed, m):
    cov = {
        "states": m["states"],
        "transitions": m["transitions"],
        "traces_validated_against_impl": m["transitions"],
        "tlc_edges_replayed": m["counters"].get("tlc_edges", 0),
        "tlc_distinct_states": m["counters"].get("tlc_distinct_states", 0),
        "send_self_loops": m["sends"],
        "deliveries_observed": m["deliveries"],
        "non_deliveries_observed": m["nondeliveries"],
        "samples": m["samples"][:3],
        "exhaustive": not m.get("capped", 0),
        "explanation": "states = reachable states of the implementation graph (fixpoint) + TLC model states; every TLC edge "
        "(state, action instance) is replayed on the real Router, send edges once per message kind; TLC checks the model's invariants",
    }
    errs = []
    if m["counters"].get("tlc_edges", 0) < 1000:
        errs.append("TLC produced fewer than 1000 edges")
    if m["deliveries"] < 100 or m["nondeliveries"] < 100:
        errs.append("deliveries / non-deliveries barely observed")
    cov["_vacuity_errors"] = errs
    return cov


def replay(rep):
    if rep.get("reentrant"):
        return [{"clause": v["clause"], "disc": v["disc"], "what": v["what"]} for v in reentrant_fanout()["violations"]]
    if rep.get("tlc"):
        path = [c04._t(e) for e in rep["path"]]
        n = rep["nclients"]
        s = replay_tlc_state(path[:-1], n)
        last = path[-1]
        if last[0] != "send":
            apply_tlc(s, last)
            return [{"clause": "tlc-successor-state", "disc": "action=%s" % last[0], "what": repr(impl_state(s))}]
        m = R.Model()
        m.devices = [0]
        for a in path[:-1]:
            if a[0] == "reg":
                m.step(("regcli", cidx(a[1])))
            elif a[0] == "unreg":
                m.step(("unregcli", cidx(a[1])))
            else:
                m.step(("enable", cidx(a[1]), a[2], a[3]))
        mm = m.copy()
        exp = mm.step(last)
        got, exc = s.apply(last)
        return [{"clause": c, "disc": d, "what": w} for c, d, w in check(m, last, got, exc, exp)]
    return c04.replay(rep, check)
