"""C19 - outbound messages are whole and in order under every I/O schedule.

Schedule model checking (E2, all choice sequences within a toggle budget) of the real
connection handlers on the virtual loop:
  tcp-server : Router -> 1..3 server ConnectionHandlers over real StreamWriters on FakeTransport;
               choices: route next message / run one loop iteration / pause or resume the flow
               control of connection i (one connection may stay paused for ever)
  tcp-client : the client ConnectionHandler.send_message, same choices
  tty        : TTY ConnectionHandler writing through real aiofiles wrappers over a controlled
               executor; choices: route next / loop iteration / run one of the first W queued jobs
Observation: the bytes of every connection split into elements by an independent splitter.
"""
import io

from mc.core import dfs
from mc.ref import xmlview as X

LEVEL = "model_checking"
ASSUMPTIONS = [
    "FakeTransport.write appends atomically (kernel buffering / partial socket writes are below the asyncio stream API)",
    "the controlled executor runs any of the first W queued jobs next (W-worker pool); torn writes inside one file write are not modelled",
    "toggle budget per execution bounds pause/resume events (stated in evidence)",
]


def numbered(i, big=0):
    import indi.message as M
    from indi.message import one_parts

    if big:
        import base64

        raw = bytes((k * 31 + i) % 256 for k in range(big))
        return M.SetBLOBVector(device="D%d" % (i % 2), name="B", state="Ok", children=[one_parts.OneBLOB(name="a", size=len(raw), format=".b%d" % i, value=base64.b64encode(raw).decode())])
    # two device names alternate (several devices share one connection)
    return M.SetTextVector(device="D%d" % (i % 2), name="V", state="Ok", children=[one_parts.OneText(name="a", value="m%d" % i), one_parts.OneText(name="b", value="x" * (i % 3))])


def execute(p, ch):
    """p = dict(transport, nconn, burst, toggles, victim, W)"""
    from indi.routing import Router

    from mc.core import vloop as V

    loop = V.VLoop().install()
    loop.auto_default_jobs = False  # jobs handed to the loop's default executor are scheduled by the explorer too
    obs = {"out": [], "errors": None, "actions": []}
    try:
        router = Router()
        tr = p["transport"]
        n = p["nconn"]
        eps = []
        handlers = []
        ctl = None
        sink = None
        if tr == "tcp-server":
            from indi.transport.server.tcp import ConnectionHandler

            for i in range(n):
                ep = V.Endpoint(loop, "s%d" % i)
                eps.append(ep)
                handlers.append(ConnectionHandler(ep.reader, ep.writer, router))
        elif tr == "tcp-client":
            from indi.transport.client.tcp import ConnectionHandler

            ep = V.Endpoint(loop, "c0")
            eps.append(ep)
            handlers.append(ConnectionHandler(ep.reader, ep.writer, lambda m: None))
        else:
            from indi.transport.server.tty import ConnectionHandler

            if tr == "mixed":
                # TCP connections and the TTY channel registered in the same router
                from indi.transport.server.tcp import ConnectionHandler as TcpHandler

                for i in range(n):
                    ep = V.Endpoint(loop, "s%d" % i)
                    eps.append(ep)
                    handlers.append(TcpHandler(ep.reader, ep.writer, router))
            ctl = V.CtlExecutor()
            sink = io.StringIO()
            stdin = V.aio_text(V.LineSource(), loop, V.CtlExecutor())
            stdout = V.aio_text(sink, loop, ctl)
            handlers.append(ConnectionHandler(router, stdin, stdout))
        msgs = [numbered(i, p.get("big", 0) if i == p.get("big_at", 0) else 0) for i in range(p["burst"])]
        if p.get("blobs"):
            # several BLOB updates (of different properties / devices) in one burst
            msgs = [numbered(i, 40 + i) for i in range(p["burst"])]
        if p.get("repeat"):
            # the same content sent again with something else in between (On, Off, On): equal messages are still
            # separate messages
            msgs = [numbered(i % 2) for i in range(p["burst"])]
        if (p.get("big") or p.get("blobs")) and tr in ("tcp-server", "mixed", "tty"):
            import indi.message as M

            for h in handlers:  # these connections want BLOBs too
                for dn in ("D0", "D1"):
                    router.process_message(M.IndiMessage.from_string('<enableBLOB device="%s">Also</enableBLOB>' % dn), sender=h)
        remaining = list(msgs)
        paused = [False] * len(eps)
        budget = p["toggles"]
        ticks = 2
        closes = 1 if p.get("closer") is not None else 0
        closed = set()
        W = p.get("W", 2)
        if p.get("backlog"):
            # a deep backlog instead of a short burst: the victim is stalled from the start and never drains while
            # thousands of messages are routed (in batches of p["batch"] per loop run); no choice points
            stall = p.get("stall", p["victim"])  # victim=None: the stalled connection resumes at the end and must then
            paused[stall] = True  # hold the complete backlog, in order
            eps[stall].pause()
            while remaining:
                for m in remaining[: p["batch"]]:
                    try:
                        if tr == "tcp-client":
                            handlers[0].send_message(m)
                        else:
                            router.process_message(m, sender=None)
                    except Exception as e:  # noqa
                        obs.setdefault("route_errors", []).append(e)
                del remaining[: p["batch"]]
                loop.quiesce()
                while ctl is not None and len(ctl):
                    ctl.run(0)
                    loop.quiesce()
        while not p.get("backlog"):
            menu = []
            if loop.has_ready():
                menu.append(("iter",))
            if remaining:
                menu.append(("route",))
            if ctl is not None:
                for j in range(min(W, len(ctl))):
                    menu.append(("job", j))
            dctl = loop.default_ctl
            if dctl is not None:
                for j in range(min(W, len(dctl))):
                    menu.append(("djob", j))
            if budget > 0:
                for i in range(len(eps)):
                    menu.append(("toggle", i))
            if closes > 0:
                # the server closes one connection (its peer went away, shutdown of that client) at any moment
                menu.append(("close", p["closer"]))
            nt = loop.next_timer()
            if nt is not None and ticks > 0 and not loop.has_ready():
                # time passes (to the next timer of the loop) while I/O is still outstanding: the unchanged handlers set
                # no timers, so this choice only exists for code that uses timeouts
                menu.append(("tick",))
            terminal = not loop.has_ready() and not remaining and (ctl is None or len(ctl) == 0) and (dctl is None or len(dctl) == 0) and loop.next_timer() is None
            if terminal:
                menu.insert(0, ("finish",))
            c = ch.choose(len(menu), None, "menu")
            act = menu[c]
            obs["actions"].append(act)
            if act[0] == "finish":
                break
            if act[0] == "iter":
                loop.step()
            elif act[0] == "route":
                m = remaining.pop(0)
                try:
                    if tr == "tcp-client":
                        handlers[0].send_message(m)
                    else:
                        router.process_message(m, sender=None)
                except Exception as e:  # noqa
                    obs.setdefault("route_errors", []).append(e)
            elif act[0] == "job":
                ctl.run(act[1])
            elif act[0] == "djob":
                dctl.run(act[1])
            elif act[0] == "close":
                closes -= 1
                closed.add(act[1])
                try:
                    handlers[act[1]].close()
                except Exception as e:  # noqa
                    obs.setdefault("route_errors", []).append(e)
            elif act[0] == "tick":
                ticks -= 1
                loop.advance_to(loop.next_timer())
            elif act[0] == "toggle":
                i = act[1]
                budget -= 1
                paused[i] = not paused[i]
                (eps[i].pause if paused[i] else eps[i].resume)()
        # finalisation: everybody except the victim resumes, then the loop runs dry
        victim = p.get("victim")
        obs["mid"] = [ep.written() for ep in eps]
        for i, ep in enumerate(eps):
            if paused[i] and i != victim and i not in closed:
                ep.resume()
                paused[i] = False
        loop.auto_default_jobs = True
        loop.quiesce()
        obs["paused_at_end"] = [paused[i] or i in closed for i in range(len(paused))]  # a closed connection holds a prefix
        if tr == "tty":
            obs["out"] = [sink.getvalue()]
        elif tr == "mixed":
            obs["out"] = [ep.written().decode("latin1") for ep in eps] + [sink.getvalue()]
        else:
            obs["out"] = [ep.written().decode("latin1") for ep in eps]
        obs["errors"] = [e.get("message") for e in loop.collect_errors()]
        obs["want"] = [m.to_string().decode("latin1") for m in msgs]
    finally:
        loop.teardown()
    return obs


def judge(p, obs):
    fails = []
    want_views = [X.view_of_xml(w) for w in obs["want"]]
    d0 = "transport=%s" % p["transport"]
    for i, out in enumerate(obs["out"]):
        els, rest = X.split_elements(out)
        try:
            views = [X.view_of_xml(e) for e in els]
        except Exception as e:
            fails.append(("garbled", d0, "connection %d: output does not split into well-formed elements: %r" % (i, out[:200])))
            continue
        stalled = obs["paused_at_end"][i] if i < len(obs["paused_at_end"]) else False
        if rest.strip():
            fails.append(("garbled", d0, "connection %d: stray characters %r between elements" % (i, rest[:80])))
        if stalled:
            if views != want_views[: len(views)]:
                fails.append(("order", d0 + ",stalled", "stalled connection %d wrote %r" % (i, [(v[3][0][2] or "")[:12] for v in views])))
            continue
        if views == want_views:
            continue
        got = [(v[3][0][2] or "")[:12] if v[3] else "?" for v in views]
        if sorted(map(repr, views)) == sorted(map(repr, want_views)):
            fails.append(("order", d0, "connection %d wrote messages in order %r" % (i, got)))
        elif len(views) < len(want_views):
            fails.append(("missing", d0 + (",other-stalled" if any(obs["paused_at_end"]) else ""), "connection %d wrote only %r of %d messages" % (i, got, len(want_views))))
        else:
            fails.append(("content", d0, "connection %d wrote %r" % (i, got)))
    if obs["errors"] and p.get("closer") is None:
        # (a connection closed under pending sends leaves its own send tasks failing: not this property's business)
        fails.append(("loop-error", d0, repr(obs["errors"])))
    if obs.get("route_errors"):
        from mc import lib

        fails.append(("routing-raised", d0 + "," + lib.exc_site(obs["route_errors"][0]), "routing a message raised %r (a connection's state must never surface in the router's caller)" % (obs["route_errors"][0],)))
    return fails


def configs(tier):
    out = []
    if tier == "quick":
        for burst in (1, 2, 3, 4):
            out.append(dict(transport="tcp-server", nconn=1, burst=burst, toggles=3, victim=None))
            out.append(dict(transport="tcp-client", nconn=1, burst=burst, toggles=3, victim=None))
            out.append(dict(transport="tcp-server", nconn=1, burst=burst, toggles=3, victim=0))
            for W in (2, 3):
                out.append(dict(transport="tty", nconn=1, burst=burst, toggles=0, victim=None, W=W))
        for victim in (None, 0, 1):
            out.append(dict(transport="tcp-server", nconn=2, burst=2, toggles=3, victim=victim))
            out.append(dict(transport="tcp-server", nconn=2, burst=3, toggles=2, victim=victim))
        out.append(dict(transport="tcp-server", nconn=3, burst=2, toggles=2, victim=0))
        out.append(dict(transport="tcp-server", nconn=3, burst=3, toggles=1, victim=2))
        # one connection is closed by the server at any moment of the burst: the others still get everything
        out.append(dict(transport="tcp-server", nconn=2, burst=3, toggles=1, victim=None, closer=0))
        out.append(dict(transport="tcp-server", nconn=2, burst=2, toggles=2, victim=None, closer=1))
        out.append(dict(transport="tcp-server", nconn=3, burst=2, toggles=1, victim=None, closer=1))
        out.append(dict(transport="mixed", nconn=1, burst=2, toggles=1, victim=0, W=2))
        out.append(dict(transport="mixed", nconn=1, burst=3, toggles=1, victim=None, W=2))
        out.append(dict(transport="mixed", nconn=2, burst=2, toggles=1, victim=1, W=2))
        out.append(dict(transport="tcp-server", nconn=1, burst=5, toggles=2, victim=None))
        out.append(dict(transport="tcp-client", nconn=1, burst=5, toggles=2, victim=None))
        # a message far above any chunking size (100 kB BLOB) followed / preceded by small ones
        for tr in ("tcp-client", "tcp-server"):
            out.append(dict(transport=tr, nconn=1, burst=2, toggles=3, victim=None, big=100000, big_at=0))
            out.append(dict(transport=tr, nconn=1, burst=3, toggles=2, victim=None, big=100000, big_at=1))
        out.append(dict(transport="tty", nconn=1, burst=2, toggles=0, victim=None, W=2, big=100000, big_at=0))
        for tr in ("tcp-client", "tcp-server"):
            out.append(dict(transport=tr, nconn=1, burst=3, toggles=2, victim=None, repeat=True))
            out.append(dict(transport=tr, nconn=1, burst=4, toggles=1, victim=None, repeat=True))
        out.append(dict(transport="tty", nconn=1, burst=3, toggles=0, victim=None, W=2, repeat=True))
        out.append(dict(transport="tty", nconn=1, burst=3, toggles=0, victim=None, W=2, blobs=True))
        out.append(dict(transport="tcp-server", nconn=2, burst=3, toggles=2, victim=None, blobs=True))
        for victim in (0, 1, 2):
            for batch in (1, 64, 2500):
                out.append(dict(transport="tcp-server", nconn=3, burst=2500, toggles=0, victim=victim, backlog=True, batch=batch))
        for stall in (0, 2):
            out.append(dict(transport="tcp-server", nconn=3, burst=2500, toggles=0, victim=None, stall=stall, backlog=True, batch=64))
        out.append(dict(transport="tcp-client", nconn=1, burst=2500, toggles=0, victim=None, stall=0, backlog=True, batch=64))
    else:
        for stall in (0, 1, 2):
            for batch in (1, 64, 9000):
                out.append(dict(transport="tcp-server", nconn=3, burst=9000, toggles=0, victim=None, stall=stall, backlog=True, batch=batch))
        out.append(dict(transport="tcp-client", nconn=1, burst=9000, toggles=0, victim=None, stall=0, backlog=True, batch=64))
        for tr in ("tcp-client", "tcp-server"):
            for burst in (3, 4, 5):
                out.append(dict(transport=tr, nconn=1, burst=burst, toggles=3, victim=None, repeat=True))
        out.append(dict(transport="tty", nconn=1, burst=4, toggles=0, victim=None, W=3, repeat=True))
        out.append(dict(transport="tty", nconn=1, burst=4, toggles=0, victim=None, W=3, blobs=True))
        out.append(dict(transport="mixed", nconn=1, burst=3, toggles=1, victim=None, W=2, blobs=True))
        out.append(dict(transport="tcp-server", nconn=2, burst=4, toggles=2, victim=None, blobs=True))
        for victim in (0, 1, 2):
            for batch in (1, 7, 64, 1000, 9000):
                out.append(dict(transport="tcp-server", nconn=3, burst=9000, toggles=0, victim=victim, backlog=True, batch=batch))
        out.append(dict(transport="mixed", nconn=2, burst=3000, toggles=0, victim=0, backlog=True, batch=64, W=2))
        for burst in (1, 2, 3, 4, 5):
            out.append(dict(transport="tcp-server", nconn=1, burst=burst, toggles=4, victim=None))
            out.append(dict(transport="tcp-client", nconn=1, burst=burst, toggles=4, victim=None))
            out.append(dict(transport="tcp-server", nconn=1, burst=burst, toggles=3, victim=0))
            for W in (2, 3):
                out.append(dict(transport="tty", nconn=1, burst=burst, toggles=0, victim=None, W=W))
        for burst in (2, 3, 4):
            for victim in (None, 0, 1):
                out.append(dict(transport="tcp-server", nconn=2, burst=burst, toggles=4 if burst == 2 else 3, victim=victim))
            for closer in (0, 1):
                out.append(dict(transport="tcp-server", nconn=2, burst=burst, toggles=2, victim=None, closer=closer))
        out.append(dict(transport="tcp-server", nconn=3, burst=3, toggles=1, victim=None, closer=1))
        for victim in (None, 0, 2):
            out.append(dict(transport="tcp-server", nconn=3, burst=2, toggles=3, victim=victim))
            out.append(dict(transport="tcp-server", nconn=3, burst=3, toggles=2, victim=victim))
        for tr in ("tcp-client", "tcp-server"):
            for big_at in (0, 1, 2):
                out.append(dict(transport=tr, nconn=1, burst=3, toggles=3, victim=None, big=200000, big_at=big_at))
            out.append(dict(transport=tr, nconn=2 if tr == "tcp-server" else 1, burst=2, toggles=2, victim=None, big=70000, big_at=0))
        out.append(dict(transport="tty", nconn=1, burst=3, toggles=0, victim=None, W=3, big=100000, big_at=1))
        for burst in (2, 3):
            for victim in (None, 0):
                out.append(dict(transport="mixed", nconn=1, burst=burst, toggles=2, victim=victim, W=2))
                out.append(dict(transport="mixed", nconn=2, burst=burst, toggles=1, victim=victim, W=3))
    return out


def shards(tier, seed):
    return [(tier, i) for i in range(len(configs(tier)))]


def run_shard(shard):
    tier, i = shard
    p = configs(tier)[i]
    res = {"states": 0, "transitions": 0, "schedules": 0, "violations": [], "samples": [], "counters": {}}
    sig = {}
    outcomes = set()
    cap = 40000 if tier == "quick" else 1500000
    for ch, obs in dfs.explore(lambda c: execute(p, c), None, cap):
        res["schedules"] += 1
        res["transitions"] += len(ch.trace)
        outcomes.add(tuple(tuple(a) for a in obs["actions"] if a[0] in ("route", "job"))[:12])
        for clause, disc, what in judge(p, obs):
            key = (clause, disc)
            if key in sig:
                sig[key]["count"] += 1
            else:
                sig[key] = {"clause": clause, "disc": disc, "what": "%r actions %r: %s" % (p, obs["actions"], what), "count": 1, "replay": {"p": p, "choices": ch.trace}}
    res["states"] = res["schedules"]
    if res["schedules"] >= cap:
        res["capped"] = 1
    res["counters"]["distinct_io_orders:%s" % p["transport"]] = len(outcomes)
    res["violations"] = list(sig.values())
    if i == 0:
        res["samples"].append({"config": p, "example_schedule": ["route", "toggle 0", "iter", "route", "iter", "toggle 0", "iter", "finish"]})
    return res


def finish(tier, seed, m):
    cov = {
        "states": m["states"],
        "transitions": m["transitions"],
        "traces_validated_against_impl": m["schedules"],
        "schedules": m["schedules"],
        "distinct_io_orders": {k: v for k, v in m["counters"].items()},
        "configs": len(configs(tier)),
        "samples": m["samples"][:2],
        "exhaustive": not m.get("capped", 0),
        "configs_capped": m.get("capped", 0),
        "explanation": "states = complete choice sequences executed on the real handlers (all sequences within the toggle budget of each config); transitions = choices taken",
    }
    cov["_vacuity_errors"] = [] if m["schedules"] > 500 else ["fewer than 500 schedules"]
    return cov


def replay(rep):
    p = rep["p"]
    obs = execute(p, dfs.Chooser(rep["choices"]))
    return [{"clause": c, "disc": d, "what": w} for c, d, w in judge(p, obs)]
