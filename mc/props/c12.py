"""C12 - no client message can take a driver, a connection or the server down.

Fault enumeration: every fault of a catalogue of hostile-but-well-formed client messages x
every target vector kind x every position in a session of valid traffic x transport in
{real TCP server handler, real TTY handler, direct router call} (thorough: pairs of faults).
Oracle: nothing escapes message handling, the sending connection stays registered and open,
the listening connection keeps receiving, only validly named elements change, and the
valid traffic after the fault is served.
"""
import base64
import io
import itertools

from mc.gen import deploy as DP
from mc.ref import driver_model as DM
from mc.ref import xmlview as X

LEVEL = "fault_enumeration"
ASSUMPTIONS = [
    "I-5: device-kind messages sent by a client: only liveness is asserted, not whether other clients see the spoof",
    "I-10: a kind-mismatched or partly invalid new*Vector may leave each validly named element at its old or at the sent value",
    "TTY: one message per line, read through real aiofiles wrappers over a controlled executor (FIFO job order here; orders are C19's business)",
]
KINDS = ("text", "number-printf", "number-sexa", "switch-OneOfMany", "light", "blob")
NEWTAG = {"text": "Text", "number": "Number", "switch": "Switch", "blob": "BLOB"}
ONE = {"text": "oneText", "number": "oneNumber", "switch": "oneSwitch", "blob": "oneBLOB"}


def b64(b):
    return base64.b64encode(b).decode()


def valid_child(kind, el, which):
    """XML of a valid one* child and the driver-side value it denotes"""
    el = el.replace("&", "&amp;").replace("<", "&lt;").replace(">", "&gt;").replace('"', "&quot;")
    if kind == "text":
        v = ("w1", "w2", "w3", "w4")[which]
        return '<oneText name="%s">%s</oneText>' % (el, v), v
    if kind == "number":
        v = ("2.5", "7", "1:30", "-3.25")[which]
        return '<oneNumber name="%s">%s</oneNumber>' % (el, v), {"2.5": 2.5, "7": 7, "1:30": 1.5, "-3.25": -3.25}[v]
    if kind == "switch":
        v = ("On", "Off", "On", "On")[which]
        return '<oneSwitch name="%s">%s</oneSwitch>' % (el, v), v
    raw = (b"one", b"\x00\xfftwo", b"three", b"4444")[which]
    return '<oneBLOB name="%s" size="%d" format=".f%d">%s</oneBLOB>' % (el, len(raw), which, b64(raw)), (raw, ".f%d" % which)


def new_msg(kind, children, device="DEV0", name="TGT"):
    return '<new%sVector device="%s" name="%s">%s</new%sVector>' % (NEWTAG[kind], device, name, "".join(children), NEWTAG[kind])


def catalogue(kind):
    """list of (fault id, xml text, named: list of (vector, element, sent driver value or None))"""
    k = kind if kind != "light" else "text"  # lights cannot be written: use text-shaped faults against the light vector
    F = []
    vc, vv = valid_child(k, "A", 3)
    F.append(("unknown-device", new_msg(k, [vc], device="NOPE"), []))
    F.append(("unknown-property", new_msg(k, [vc], name="NOPE"), []))
    F.append(("unknown-element", new_msg(k, [valid_child(k, "ZZ", 3)[0]]), []))
    for odd in ("a", "t", "Target \u00b5m <&>", "TGT"):
        # names that are no element names but collide with python attribute keys, the vector's name or label
        F.append(("unknown-element-%s" % ("label" if " " in odd else odd), new_msg(k, [valid_child(k, odd, 3)[0]]), []))
    F.append(("unknown-element-then-valid", new_msg(k, [valid_child(k, "ZZ", 3)[0], vc]), [("TGT", "A", vv)]))
    for other in ("text", "number", "switch", "blob"):
        if other != k or kind == "light":
            oc, ov = valid_child(other, "A", 3)
            F.append(("kind-mismatch-" + other, new_msg(other, [oc]), [("TGT", "A", ov)]))
    F.append(("switch-text-Maybe", new_msg("switch", ['<oneSwitch name="A">Maybe</oneSwitch>'], name="TGT" if k == "switch" else "OTHER"), []))
    for bad in ("abc", "", "1:2:3:4", "--1", "1e", "1:30e5"):
        F.append(("number-text-%s" % (bad or "empty"), new_msg("number", ['<oneNumber name="A">%s</oneNumber>' % bad]), []))
    # exponent notation is what printf's %e / %g render: a receiver may take it (as 100000) or refuse it
    F.append(("number-text-1e5", new_msg("number", ['<oneNumber name="A">1e5</oneNumber>']), [("TGT", "A", 1e5)]))
    # syntactically valid numbers that no float can hold
    F.append(("number-text-huge-int", new_msg("number", ['<oneNumber name="A">%s</oneNumber>' % ("9" * 400)]), []))
    F.append(("number-text-huge-decimal", new_msg("number", ['<oneNumber name="A">%s.5</oneNumber>' % ("9" * 400)]), []))
    # finite for a float, but beyond what a sexagesimal format can render
    F.append(("number-text-1e307", new_msg("number", ['<oneNumber name="A">1%s.0</oneNumber>' % ("0" * 307)]), [("TGT", "A", 1e307)]))
    F.append(("number-text-minus-1e307", new_msg("number", ['<oneNumber name="A">-1%s</oneNumber>' % ("0" * 307)]), [("TGT", "A", -1e307)]))
    # a valid first element followed by one that cannot be applied
    F.append(("valid-then-huge", new_msg("number", [valid_child("number", "A", 3)[0], '<oneNumber name="B">%s</oneNumber>' % ("9" * 400)]), [("TGT", "A", -3.25)]))
    # raw non-ASCII bytes (ISO-8859-1, as the transports decode them) in an otherwise valid message
    F.append(("raw-latin1-byte", new_msg("text", ['<oneText name="A">caf\xe9</oneText>']), [("TGT", "A", "caf\xe9")]))
    F.append(("number-text-huge-sexagesimal", new_msg("number", ['<oneNumber name="A">%s:30</oneNumber>' % ("9" * 400)]), []))
    # python's lenient decoder reads 'QUJD=' as b"ABC": the element is validly named, the sent value may be taken
    F.append(("base64-bad-padding", new_msg("blob", ['<oneBLOB name="A" size="3" format=".x">QUJD=</oneBLOB>']), [("TGT", "A", (b"ABC", ".x"))]))
    F.append(("base64-illegal-chars", new_msg("blob", ['<oneBLOB name="A" size="3" format=".x">@@@@</oneBLOB>']), []))
    F.append(("blob-size-wrong", new_msg("blob", ['<oneBLOB name="A" size="5" format=".x">%s</oneBLOB>' % b64(b"abc")]), [("TGT", "A", (b"abc", ".x"))]))
    F.append(("blob-size-non-numeric", new_msg("blob", ['<oneBLOB name="A" size="big" format=".x">%s</oneBLOB>' % b64(b"abc")]), [("TGT", "A", (b"abc", ".x"))]))
    F.append(("blob-size-missing", new_msg("blob", ['<oneBLOB name="A" format=".x">%s</oneBLOB>' % b64(b"abc")]), []))
    F.append(("no-children", '<new%sVector device="DEV0" name="TGT"/>' % NEWTAG[k], []))
    c1, v1 = valid_child(k, "A", 2)
    c2, v2 = valid_child(k, "A", 3)
    F.append(("duplicate-children", new_msg(k, [c1, c2]), [("TGT", "A", v1), ("TGT", "A", v2)]))
    F.append(("client-sends-defTextVector", '<defTextVector device="DEV0" name="TGT" state="Ok" perm="rw"><defText name="A">spoof</defText></defTextVector>', []))
    F.append(("client-sends-setTextVector", '<setTextVector device="DEV0" name="TGT" state="Alert"><oneText name="A">spoof</oneText></setTextVector>', []))
    F.append(("client-sends-delProperty", '<delProperty device="DEV0" name="TGT"/>', []))
    # device-kind messages about the WHOLE device / every device from a client: other clients' settings and views of the
    # router must not change either (the listener keeps getting what it asked for)
    F.append(("client-sends-delProperty-unknown-property", '<delProperty device="DEV0" name="NOPE"/>', []))
    F.append(("client-sends-delProperty-unknown-device", '<delProperty device="NOPE" name="TGT"/>', []))
    F.append(("client-sends-delProperty-whole-device", '<delProperty device="DEV0"/>', []))
    F.append(("client-sends-delProperty-other-device", '<delProperty device="DEV1"/>', []))
    F.append(("client-sends-message-no-device", '<message message="hi"/>', []))
    F.append(("client-sends-defBLOBVector", '<defBLOBVector device="DEV0" name="TGT" state="Ok" perm="rw"><defBLOB name="A"/></defBLOBVector>', []))
    F.append(("client-sends-setBLOBVector", '<setBLOBVector device="DEV0" name="TGT" state="Ok"><oneBLOB name="A" size="3" format=".x">QUJD</oneBLOB></setBLOBVector>', []))
    F.append(("client-sends-pingRequest", '<pingRequest uid="7"/>', []))
    F.append(("client-sends-message", '<message device="DEV0" message="hi"/>', []))
    F.append(("client-sends-pingReply", '<pingReply uid="7"/>', []))
    F.append(("enableBLOB-unknown-device", "<enableBLOB device=\"NOPE\">Also</enableBLOB>", []))
    F.append(("enableBLOB-bad-value", "<enableBLOB device=\"DEV0\">Sometimes</enableBLOB>", []))
    F.append(("getProperties-without-version", "<getProperties device=\"DEV0\"/>", []))
    # requests that name something that is not there (or only on some devices): ignored, not an error
    F.append(("getProperties-unknown-property", '<getProperties version="1.7" device="DEV0" name="NOPE"/>', []))
    F.append(("getProperties-unknown-property-no-device", '<getProperties version="1.7" name="NOPE"/>', []))
    F.append(("getProperties-unknown-device", '<getProperties version="1.7" device="NOPE" name="TGT"/>', []))
    F.append(("getProperties-empty-name", '<getProperties version="1.7" device="DEV0" name=""/>', []))
    F.append(("getProperties-element-name", '<getProperties version="1.7" device="DEV0" name="A"/>', []))
    F.append(("getProperties-odd-version", '<getProperties version="99.9" device="DEV0" name="TGT"/>', []))
    for ver in ("1.7.1", "v1.7", "", "one"):
        F.append(("getProperties-version-%s" % (ver or "empty"), '<getProperties version="%s" device="DEV0"/>' % ver, []))
    # an empty device name names no device (it is not the same as no device attribute)
    F.append(("empty-device-name", new_msg(k, [vc], device=""), []))
    F.append(("unknown-tag", "<fooBar device=\"DEV0\"><oneText name=\"A\">x</oneText></fooBar>", []))
    F.append(("newLightVector", '<newLightVector device="DEV0" name="TGT"><oneLight name="A">Alert</oneLight></newLightVector>', []))
    F.append(("write-to-bystander-wrong-kind", new_msg(k, [vc], name="OTHER"), [("OTHER", "A", vv)]))
    # blank lines and pretty-printed (multi-line) hostile messages: a line-oriented transport must not take them for EOF
    F.append(("blank-lines", "\n   \n\n", []))
    F.append(("pretty-printed-unknown-element", '<new%sVector device="DEV0" name="TGT">\n\n  %s\n\n</new%sVector>' % (NEWTAG[k], valid_child(k, "ZZ", 3)[0], NEWTAG[k]), []))
    # a very long value (more than the stream reader's 64 KiB limit without any '>') in a write that names nothing
    F.append(("huge-value-unknown-property", '<newTextVector device="DEV0" name="NOPE"><oneText name="A">%s</oneText></newTextVector>' % ("v" * 70000), []))
    # direct router calls only: the sender is not a registered client
    F.append(("enableBLOB-from-unregistered-sender", "@unregistered:<enableBLOB device=\"DEV0\">Also</enableBLOB>", []))
    F.append(("enableBLOB-without-sender", "@nosender:<enableBLOB device=\"DEV0\">Only</enableBLOB>", []))
    F.append(("write-from-unregistered-sender", "@unregistered:" + new_msg(k, [valid_child(k, "ZZ", 3)[0]]), []))
    return F


class Session:
    """two connections X (sender) and Y (listener) on one transport"""

    def __init__(self, variant, transport):
        from mc.core import e2e
        from mc.core import vloop as V

        # "<transport>+log": the deployment forwards the library's log records to the clients through indi.logging.Handler
        # (as the example servers do), so whatever the drivers log while they refuse a message is routed as <message>
        self.with_log = transport.endswith("+log")
        transport = transport.split("+")[0]
        self.variant = variant
        self.kind = variant.split("-")[0]
        self.transport = transport
        self.specs = DP.deployment(variant=variant, ndev=2)
        self.w = e2e.World(self.specs)
        # the second driver snoops on the first one (an in-process client that mirrors DEV0 and is registered with the
        # router like any other client): whatever a connection sends reaches it too
        self.w.devices[1].snoop_device("DEV0")
        self.w.settle()
        self.escaped = []
        w = self.w
        if transport == "tcp":
            self.X = w.new_link("X")
            self.Y = w.new_link("Y")
            w.settle()
            self.xh = self.X.server_handler(w)
            self.yh = self.Y.server_handler(w)
        elif transport == "tty":
            from indi.transport.server.tty import ConnectionHandler

            self.Y = w.new_link("Y")
            self.src = V.LineSource()
            self.sink = io.StringIO()
            self.in_ctl = V.CtlExecutor()
            self.out_ctl = V.CtlExecutor()
            self.xh = ConnectionHandler(w.router, V.aio_text(self.src, w.loop, self.in_ctl), V.aio_text(self.sink, w.loop, self.out_ctl))
            self.xtask = w.loop.create_task(self.xh.handle())
            w.settle()
            self.yh = self.Y.server_handler(w)
        else:
            from indi.routing import Client

            outer = self

            class Rec(Client):
                def __init__(self):
                    self.got = []

                def message_from_device(self, message):
                    self.got.append(message)

            self.xh = Rec()
            self.yh = Rec()
            w.router.register_client(self.xh)
            w.router.register_client(self.yh)
        self.initial = self.snapshot()
        self.log_handler = None
        if self.with_log:
            import logging

            import indi.logging as IL

            self.log_handler = IL.Handler(w.router)
            lg = logging.getLogger("indi")
            self._log_saved = (lg.propagate, lg.level, logging.root.manager.disable)
            lg.propagate = False
            lg.setLevel(logging.WARNING)
            lg.addHandler(self.log_handler)
            logging.disable(logging.NOTSET)

    def close(self):
        if self.log_handler is not None:
            import logging

            lg = logging.getLogger("indi")
            lg.removeHandler(self.log_handler)
            lg.propagate, lvl, dis = self._log_saved
            lg.setLevel(lvl)
            logging.disable(dis)
        self.w.close()

    def start_late_device(self, name):
        from mc.gen import drivers as D

        spec = dict(DP.deployment(variant="text", ndev=1)[0])
        spec["name"] = name
        cls, _defs = D.build_class(spec)
        self.late = cls(router=self.w.router)
        self.pump()

    def snapshot(self):
        out = []
        for spec, dev in zip(self.specs, self.w.devices):
            t = DM.truth(spec, dev)
            out.append({vn: {en: e["value"] for en, e in tv["elements"].items()} for vn, tv in t.items()})
        return out

    def pump(self):
        w = self.w
        for _ in range(10000):
            w.settle()
            progressed = False
            if self.transport == "tty":
                while len(self.out_ctl):
                    self.out_ctl.run(0)
                    progressed = True
                if len(self.in_ctl) and self.src.available():
                    self.in_ctl.run(0)
                    progressed = True
            if not progressed:
                return
        raise RuntimeError("pump: no quiescence")

    def send(self, xml, who="X"):
        """returns 'ok' | 'unparseable' (direct only)"""
        import indi.message as M

        special = None
        if xml.startswith("@"):
            special, xml = xml[1:].split(":", 1)
            if self.transport != "direct":
                return "not-applicable"
        if self.transport == "direct":
            try:
                msg = M.IndiMessage.from_string(xml)
            except Exception:
                return "unparseable"
            sender = self.xh if who == "X" else self.yh
            if special == "unregistered":
                sender = type(self.xh)()
            elif special == "nosender":
                sender = None
            try:
                self.w.router.process_message(msg, sender=sender)
            except Exception as e:  # noqa
                self.escaped.append(e)
            return "ok"
        if who == "Y" or self.transport == "tcp":
            link = self.X if who == "X" else self.Y
            if link.server_ep.transport.closing or link.server_ep.reader.at_eof():
                return "dead"  # the server already closed this connection; judged at the end of the session
            link.server_ep.feed(xml.encode("latin1"))
        else:
            for ln in (xml + "\n").splitlines(keepends=True):  # the TTY handler reads line by line
                self.src.supply(ln)
                self.pump()
        self.pump()
        return "ok"

    def output(self, who):
        if self.transport == "direct":
            h = self.xh if who == "X" else self.yh
            return "".join(m.to_string().decode("latin1") for m in h.got)
        if who == "X" and self.transport == "tty":
            return self.sink.getvalue()
        link = self.X if who == "X" else self.Y
        return link.server_ep.written().decode("latin1")


def run_session(variant, transport, faults, slots, glued=False):
    """faults: list of (id, xml, named); slots: parallel list of slot indices 0..3
    glued: the fault and the valid message that follows it arrive in one read / one line"""
    kind = variant.split("-")[0]
    s = Session(variant, transport)
    obs = {"fails": []}
    try:
        fails = obs["fails"]
        d0 = "transport=%s" % transport
        transport = transport.split("+")[0]
        wk = kind if kind != "light" else None
        steps = []
        steps.append(("getProperties", '<getProperties version="1.7"/>'))
        if wk:
            c, v1 = valid_child(wk, "A", 0)
            steps.append(("write", new_msg(wk, [c])))
        steps.append(("getProperties", '<getProperties version="1.7" device="DEV0" name="TGT"/>'))
        final_vals = {}
        if wk:
            ca, va = valid_child(wk, "A", 1)
            cb, vb = valid_child(wk, "B", 2)
            steps.append(("final-write", new_msg(wk, [ca, cb])))
            final_vals = {"A": va, "B": vb}
            if wk == "switch":
                final_vals = None  # judged through the switch model below
        else:
            steps.append(("noop", None))
        s.send('<getProperties version="1.7"/>', "Y")
        if transport != "direct":
            s.send("<enableBLOB device=\"DEV0\">Also</enableBLOB>", "Y")
        else:
            s.send("<enableBLOB device=\"DEV0\">Also</enableBLOB>", "Y")
        named = []
        delivered_faults = 0
        for i, (what, xml) in enumerate(steps):
            prefix = ""
            for (fid, fxml, fnamed), slot in zip(faults, slots):
                if slot == i:
                    if glued and xml and transport != "direct" and not fxml.startswith("@"):
                        prefix += fxml
                        delivered_faults += 1
                    else:
                        before = s.snapshot()
                        if s.send(fxml) == "ok":
                            delivered_faults += 1
                        # immediately after the fault: only elements it validly names may differ (old or sent value)
                        try:
                            now = s.snapshot()
                        except Exception as e:  # noqa
                            now = None
                            fails.append(("state-unreadable-after-fault", "transport=%s" % transport, "fault %s: %r" % (fid, e)))
                        if now is not None:
                            allow = {}
                            for vn, en, val in fnamed:
                                allow.setdefault((vn, en), []).append(val)
                            for di, (b, a) in enumerate(zip(before, now)):
                                for vn in b:
                                    for en in b[vn]:
                                        oks = [b[vn][en]] + (allow.get((vn, en), []) if di == 0 else [])
                                        if not any(same(a[vn][en], o) for o in oks):
                                            fails.append(("fault-changed-state", "transport=%s" % transport, "fault %s: device %d %s.%s became %r (was %r)" % (fid, di, vn, en, short(a[vn][en]), short(b[vn][en]))))
                    named += fnamed
            if xml:
                mark_y = len(s.output("Y"))
                mark_x = len(s.output("X"))
                sent = s.send(prefix + xml)
                # a valid message is processed when it arrives, not when some later traffic wakes the connection up
                if sent == "ok":
                    fid0 = "+".join(f[0] for f in faults) or "none"
                    if what == "getProperties" and "<def" not in s.output("X")[mark_x:]:
                        fails.append(("valid-message-delayed", d0, "fault %s%s: the getProperties of step %d was not answered when it arrived" % (fid0, " (same read)" if prefix else "", i)))
                    if what in ("write", "final-write") and wk:
                        tag = "set%sVector" % NEWTAG[wk]
                        if tag not in s.output("Y")[mark_y:]:
                            fails.append(("valid-message-delayed", d0, "fault %s%s: the valid write of step %d had no effect when it arrived (no %s published)" % (fid0, " (same read)" if prefix else "", i, tag)))
        obs["delivered_faults"] = delivered_faults
        # final request
        mark_x = len(s.output("X"))
        s.send('<getProperties version="1.7" device="DEV0" name="TGT"/>')
        fids = "+".join(f[0] for f in faults) or "none"
        # 1. nothing escaped / connections alive
        if s.escaped:
            from mc import lib

            fails.append(("exception-escaped", d0 + "," + lib.exc_site(s.escaped[0]), "fault %s: %r" % (fids, s.escaped[0])))
        router = s.w.router
        if s.xh not in router.clients:
            fails.append(("sender-unregistered", d0, "fault %s: the sending connection is no longer registered" % fids))
        if s.yh not in router.clients:
            fails.append(("listener-unregistered", d0, "fault %s: the listening connection is no longer registered" % fids))
        if transport == "tcp":
            if s.X.server_task.done() or s.X.server_ep.transport.closing:
                fails.append(("sender-connection-closed", d0, "fault %s: server closed the sending connection" % fids))
            if s.Y.server_task.done() or s.Y.server_ep.transport.closing:
                fails.append(("listener-connection-closed", d0, "fault %s: server closed the listening connection" % fids))
        if transport == "tty" and s.xtask.done():
            fails.append(("sender-connection-closed", d0, "fault %s: the TTY handler stopped" % fids))
        # 2. state
        after = s.snapshot()
        allowed_extra = {}
        for vn, en, val in named:
            allowed_extra.setdefault((vn, en), []).append(val)
        for di, (b, a) in enumerate(zip(s.initial, after)):
            for vn in b:
                for en in b[vn]:
                    got = a[vn][en]
                    ok_vals = [b[vn][en]]
                    if di == 0:
                        ok_vals += allowed_extra.get((vn, en), [])
                    if di == 0 and vn == "TGT" and wk and wk != "switch" and en in ("A", "B"):
                        ok_vals = [final_vals[en]]
                    if di == 0 and vn == "TGT" and wk == "switch":
                        continue
                    if not any(same(got, o) for o in ok_vals):
                        clause = "valid-write-not-applied" if (di == 0 and vn == "TGT" and en in ("A", "B") and wk) else "unrelated-state-changed"
                        fails.append((clause, d0, "fault %s: device %d %s.%s = %r, allowed %r" % (fids, di, vn, en, short(got), [short(o) for o in ok_vals])))
        if wk == "switch":
            # final write was A=Off (which=1), B=On (which=2) under OneOfMany -> B On, A Off
            sw = after[0]["TGT"]
            if not (sw["B"] == "On" and sw["A"] == "Off"):
                fails.append(("valid-write-not-applied", d0, "fault %s: switches %r after writing A=Off, B=On" % (fids, sw)))
        # 3. the listener saw the update of the final valid write
        if wk:
            tag = "set%sVector" % NEWTAG[wk]
            ytail = s.output("Y")[mark_y:]
            if tag not in ytail:
                fails.append(("listener-starved", d0, "fault %s: the listening connection did not receive the %s of the valid write after the fault" % (fids, tag)))
        # 4. the final request was answered
        xtail = s.output("X")[mark_x:]
        if "<def" not in xtail:
            fails.append(("request-not-answered", d0, "fault %s: the getProperties after the fault was not answered (%d chars of output)" % (fids, len(xtail))))
        # 5. a driver named like the catalogue's unknown device starts only now: what the connection asks of it is served
        #    (a refused message about a device that did not exist must leave nothing behind)
        try:
            s.start_late_device("NOPE")
            mark_x = len(s.output("X"))
            s.send('<getProperties version="1.7" device="NOPE"/>')
            xtail = s.output("X")[mark_x:]
            if "<def" not in xtail or 'device="NOPE"' not in xtail:
                fails.append(("late-device-not-served", d0, "fault %s: a driver NOPE registered after the session does not answer the connection's getProperties" % fids))
        except Exception as e:  # noqa
            from mc import lib

            fails.append(("late-device-not-served", d0 + "," + lib.exc_site(e), "fault %s: %r" % (fids, e)))
        errs = s.w.loop.collect_errors()
        if errs:
            fails.append(("loop-error", d0, "fault %s: %r" % (fids, [e.get("message") for e in errs][:3])))
        obs["log_notices"] = s.output("Y").count("<message") if s.with_log else 0
    finally:
        s.close()
    return obs


def same(a, b):
    if isinstance(a, float) or isinstance(b, float):
        try:
            return abs(a - b) <= 1e-9
        except Exception:
            return False
    return a == b


def short(v):
    if isinstance(v, tuple) and v and isinstance(v[0], (bytes, bytearray)):
        return ("<%d bytes>" % len(v[0]), v[1])
    return v


def shards(tier, seed):
    sh = []
    for variant in KINDS:
        for transport in ("tcp", "tty", "direct", "tcp+log", "direct+log"):
            sh.append((tier, variant, transport, "single"))
            if "+" in transport:
                continue
            if tier == "thorough":
                sh.append((tier, variant, transport, "pairs"))
    return sh


def run_shard(shard):
    tier, variant, transport, mode = shard
    kind = variant.split("-")[0]
    res = {"evaluations": 0, "sessions_with_fault_delivered": 0, "violations": [], "samples": [], "counters": {}}
    sig = {}

    def record(faults, slots, fails):
        for clause, disc, what in fails:
            fid = faults[0][0] if faults else "none"
            key = (clause, disc + ",fault=" + fid)
            if key in sig:
                sig[key]["count"] += 1
            else:
                sig[key] = {"clause": clause, "disc": disc + ",fault=" + fid, "count": 1, "what": "%s %s: %s" % (variant, slots, what), "replay": dict(variant=variant, transport=transport, faults=[f[0] for f in faults], slots=slots)}

    cat = catalogue(kind)
    # control: no fault at all must pass
    o = run_session(variant, transport, [], [])
    res["evaluations"] += 1
    record([], [], o["fails"])
    if mode == "single":
        for f in cat:
            for slot in range(4):
                for glued in (False, True) if not transport.startswith("direct") else (False,):
                    o = run_session(variant, transport, [f], [slot], glued)
                    res["evaluations"] += 1
                    res["sessions_with_fault_delivered"] += 1 if o.get("delivered_faults") else 0
                    res["counters"]["log_notices_routed"] = res["counters"].get("log_notices_routed", 0) + o.get("log_notices", 0)
                    record([f], [slot, "glued"] if glued else [slot], o["fails"])
        # two faults in one session: each fault with its successor in the catalogue (thorough: all ordered pairs)
        for k, f1 in enumerate(cat):
            f2 = cat[(k + 1) % len(cat)]
            for slots in ((1, 1), (1, 3)):
                o = run_session(variant, transport, [f1, f2], list(slots))
                res["evaluations"] += 1
                res["sessions_with_fault_delivered"] += 1 if o.get("delivered_faults") else 0
                record([f1, f2], list(slots), o["fails"])
    else:
        for f1, f2 in itertools.permutations(cat, 2):
            for slots in ((1, 1), (1, 3), (3, 3)):
                o = run_session(variant, transport, [f1, f2], list(slots))
                res["evaluations"] += 1
                res["sessions_with_fault_delivered"] += 1 if o.get("delivered_faults") else 0
                record([f1, f2], list(slots), o["fails"])
    res["violations"] = list(sig.values())
    if variant == "text" and transport == "tcp" and mode == "single":
        res["samples"].append({"variant": variant, "transport": transport, "fault": cat[0][0], "xml": cat[0][1], "slot": 1})
    return res


def finish(tier, seed, m):
    cov = {
        "evaluations": m["evaluations"],
        "distinct_nontrivial": m["sessions_with_fault_delivered"],
        "rule": "one evaluation = one complete session (handshake, write, request, final write, final request, on sender X with listener Y) with "
        "the fault(s) injected at the stated slot(s); sessions are distinct by (kind, transport, fault ids, slots); non-trivial = at least one fault "
        "was actually delivered to message handling (direct transport skips faults the parser rejects)",
        "faults_in_catalogue": len(catalogue("text")),
        "transports": ["tcp", "tty", "direct", "tcp with indi.logging.Handler attached", "direct with indi.logging.Handler attached"],
        "log_records_routed_as_message_notices": m["counters"].get("log_notices_routed", 0),
        "samples": m["samples"][:2],
        "exhaustive": True,
    }
    cov["_vacuity_errors"] = ([] if m["sessions_with_fault_delivered"] > 500 else ["few sessions with delivered faults"]) + ([] if m["counters"].get("log_notices_routed", 0) > 50 else ["the log-forwarding handler was barely exercised"])
    return cov


def replay(rep):
    variant = rep["variant"]
    cat = {f[0]: f for f in catalogue(variant.split("-")[0])}
    faults = [cat[f] for f in rep["faults"]]
    slots = [x for x in rep["slots"] if x != "glued"]
    o = run_session(variant, rep["transport"], faults, slots, "glued" in rep["slots"])
    fid = faults[0][0] if faults else "none"
    return [{"clause": c, "disc": d + ",fault=" + fid, "what": w} for c, d, w in o["fails"]]
