"""C01 - client view converges to the device's true property state.

Model checking on the end-to-end world (real driver -> router -> TCP server handler -> wire ->
client handler -> Client; and in-process SnoopingClient): for every deployment of the family,
BFS over histories of driver-side and client-side operations (depth <= 2, thorough 3; merged
on the (driver truth, client view) state), full quiescence between operations; per transition
the delivery schedule is explored: FIFO whole chunks, byte-by-byte, 7-byte chunks, another
pipe first (deviation-bounded), and every k-th single cut of the bytes the transition produced
(depth-1 histories).  Oracle at quiescence: driver model truth vs client public view vs an
independent mirror rebuilt from the wire bytes.
"""
import itertools

from mc.core import dfs
from mc.gen import deploy as DP
from mc.ref import client_model as CM
from mc.ref import driver_model as DM
from mc.ref import xmlview as X

LEVEL = "model_checking"
ASSUMPTIONS = [
    "I-13: a client BLOB element shows the driver's current BLOB, or nothing when no update followed the client's latest definition of the property",
    "fragmentation independence of the delivered message sequence is decided by C02; C01 adds delivery interleaving between connections and selected cut sets",
    "number texts are judged numerically within the format's resolution (rendering is C10)",
    "I-18: a client that has not enabled BLOBs for a device (snooping clients) never receives setBLOBVector, so the state of BLOB properties is not judged for it; for BLOB properties the control and BLOB connections race, so schedule independence of the final BLOB value is not asserted",
]
SHARD_LIMIT = {"quick": 900, "thorough": 10800}


def family(tier):
    """the shared deployment family plus deployments only this check needs: a Write handler on element A that defers
    every client write and never confirms it (the device publishes nothing: no client may show the requested value)"""
    fam = list(DP.family(tier))
    for variant in ("text", "number-printf", "switch-AnyOfMany", "switch-OneOfMany", "blob"):
        fam.append(dict(variant=variant, vec_enabled=True, grp_enabled=True, depth=1, ndev=2, ngroups=2, write_veto=True))
    for variant in ("number-sexa3", "number-sexa5", "number-sexa8", "number-sexa9", "number-g"):
        fam.append(dict(variant=variant, vec_enabled=True, grp_enabled=True, depth=1, ndev=1, ngroups=2))
    for variant in ("text", "number-printf", "switch-OneOfMany"):
        fam.append(dict(variant=variant, vec_enabled=True, grp_enabled=True, depth=1, ndev=1, ngroups=2, dead_peer=True))
    # the client's two connections are established with latency, in either order
    for order in (("ctl", "blob"), ("blob", "ctl")):
        for variant in ("blob", "text"):
            fam.append(dict(variant=variant, vec_enabled=True, grp_enabled=True, depth=1, ndev=2, ngroups=2, connect=order))
            fam.append(dict(variant=variant, vec_enabled=True, grp_enabled=True, depth=1, ndev=1, ngroups=2, connect=order, announce=True))
    # the wall clock that stamps the device's messages steps BACK before every operation (NTP step, VM resume)
    for variant in ("text", "number-printf", "switch-OneOfMany", "light", "blob"):
        fam.append(dict(variant=variant, vec_enabled=True, grp_enabled=True, depth=1, ndev=1, ngroups=2, clock="back"))
    return fam


def deployment_of(p):
    return DP.deployment(**{k: v for k, v in p.items() if k not in ("write_veto", "connect", "dead_peer", "announce", "clock")})


def shards(tier, seed):
    fam = family(tier)
    return [(tier, i) for i in range(len(fam))]


def value_of(kind, i):
    from indi.device.values import BLOB

    if kind == "text":
        return ("v1 \u00e9\u00b0 \u2603", "<&>\"q'")[i]
    if kind == "number":
        return (12.5, -0.50084)[i]  # -0:30:03.02: hundredths of a second below ten
    if kind == "switch":
        return ("On", "Off")[i]
    if kind == "light":
        return ("Alert", "Idle")[i]
    return (BLOB(b"abc\x00\xff", ".x"), BLOB(bytes(range(256)) * 5, ".bin"))[i]


def ops_for(p):
    kind = p["variant"].split("-")[0]
    out = [("assign", "a", 0), ("assign", "b", 1), ("set_value", "a", 1), ("state", "Busy"), ("vec-enabled", False), ("vec-enabled", True), ("grp-enabled", False), ("grp-enabled", True), ("by-assign",), ("handshake",)]
    if kind == "text":
        out += [("assign-empty", "a")]  # a text can be emptied again: the update carries an element without content
    if kind == "switch":
        out += [("bool", "b", True), ("bool", "a", False), ("selected", "C")]
    if kind not in ("light",):
        out += [("cwrite", "A", 0), ("cwrite", "B", 1)]
    if kind == "number":
        # one submit naming a valid element and one whose value cannot be applied: what was applied must be published
        out += [("cwrite-partly-bad",), ("cwrite-refused",)]
    return out


class Run:
    def __init__(self, p, snoop=False):
        from mc.core import e2e

        self.p = p
        self.specs = deployment_of(p)
        # deployments with read_refresh: a plain Read handler refreshes element A "from the hardware" whenever it is read
        hf = DM.read_refresh_handlers(p["variant"].split("-")[0]) if p.get("read_refresh") else None
        if p.get("write_veto"):
            hf = DM.write_veto_handlers(p["variant"].split("-")[0])
        self.w = e2e.World(self.specs, handlers=hf)
        self.snoop = snoop
        self.kind = p["variant"].split("-")[0]
        self.flags = {"vec": p.get("vec_enabled", True), "grp": p.get("grp_enabled", True)}
        # BLOB elements for which an update was published after the client's latest definition (I-13): with FIFO
        # delivery the client must then hold exactly the driver's BLOB
        self.blob_strict = {}
        try:
            if snoop:
                self.client = self.w.devices[1].snoop_device("DEV0")
                self.w.settle()
                self.handshaken = {"DEV0"}
            else:
                self.observer = None
                self.link_offset = 0
                self.dead_link = None
                if p.get("dead_peer"):
                    # another peer connected BEFORE our client and is on its way out during the last operation: its
                    # transport is closing, the server has not noticed yet.  Our client must not feel it.
                    self.dead_link = self.w.new_link("dead")
                    self.w.settle()
                    self.dead_link.server_ep.feed(b'<getProperties version="1.7"/>')
                    self.w.settle()
                    self.link_offset = 1
                if len(self.specs) >= 2 and self.kind != "blob":
                    self.observer = self.w.devices[1].snoop_device("DEV0")
                    self.w.settle()
                between = None
                if p.get("connect") and p.get("announce"):
                    # while only one of the client's connections is up, the driver (re-)announces its property
                    def between():
                        g1_ = DM.live_group(self.w.devices[0], self.specs[0]["groups"][0])
                        g1_.vectors["t"].enabled = True

                self.client = self.w.make_client(p.get("connect"), between)
                self.handshaken = {s["name"] for s in self.specs}
        except BaseException:
            self.w.close()
            raise

    def close(self):
        self.w.close()

    def _note_blob(self, op):
        if self.kind != "blob":
            return
        en = self.flags["vec"] and self.flags["grp"]
        o = op[0]
        vetoed = bool(self.p.get("write_veto")) and o in ("set_value", "cwrite") and op[1].upper() == "A"
        if vetoed:
            pass  # the Write handler on A defers the change and never confirms it: nothing is published
        elif o in ("assign", "set_value") and en:
            self.blob_strict[op[1].upper()] = True
        elif o == "cwrite" and en:
            self.blob_strict[op[1]] = True
        elif o in ("vec-enabled", "grp-enabled"):
            if en:
                for k in ("A", "B"):
                    self.blob_strict[k] = True  # re-enabling publishes the definition followed by the update
            else:
                self.blob_strict = {}
        elif o == "handshake":
            self.blob_strict = {}  # a fresh definition carries no payload

    def apply(self, op):
        if self.p.get("clock") == "back":
            self.nops = getattr(self, "nops", 0) + 1
            self.w.now_value = "2023-12-31T23:%02d:00" % max(0, 50 - 10 * self.nops)
        r = self._apply(op)
        if r != "skipped":
            self._note_blob(op)
        return r

    def _apply(self, op):
        dev, spec = self.w.devices[0], self.specs[0]
        g1 = DM.live_group(dev, spec["groups"][0])
        vec = g1.vectors["t"]
        o = op[0]
        if o == "assign":
            getattr(vec, op[1]).value = value_of(self.kind, op[2])
        elif o == "assign-empty":
            getattr(vec, op[1]).value = ""
        elif o == "set_value":
            getattr(vec, op[1]).set_value(value_of(self.kind, op[2]))
        elif o == "bool":
            getattr(vec, op[1]).bool_value = op[2]
        elif o == "selected":
            vec.selected_value = op[1]
        elif o == "state":
            vec.state_ = op[1]
        elif o == "vec-enabled":
            vec.enabled = op[1]
            self.flags["vec"] = op[1]
        elif o == "grp-enabled":
            g1.enabled = op[1]
            self.flags["grp"] = op[1]
        elif o == "by-assign":
            g2 = DM.live_group(dev, spec["groups"][1])
            bv = g2.vectors["o"]
            if spec["groups"][1]["vectors"][0]["kind"] == "text":
                bv.a.value = "changed"
            else:
                bv.a.bool_value = True
        elif o == "handshake":
            if self.snoop:
                self.client.handshake("DEV0")
            else:
                self.client.handshake()
        elif o == "cwrite-partly-bad":
            d = self.client.get_device("DEV0")
            cv = d.get_vector("TGT") if d else None
            if cv is None or cv.get_element("A") is None or cv.get_element("B") is None:
                return "skipped"
            cv["A"].value = "42.5"
            cv["B"].value = "9" * 400
            cv.submit()
        elif o == "cwrite-refused":
            # a write the device cannot apply at all (valid number syntax, no float can hold it): it answers nothing,
            # so the writer's own view must keep showing the device's value
            d = self.client.get_device("DEV0")
            cv = d.get_vector("TGT") if d else None
            if cv is None or cv.get_element("B") is None:
                return "skipped"
            cv["B"].value = "1" + "0" * 400
            cv.submit()
        elif o == "cwrite":
            d = self.client.get_device("DEV0")
            cv = d.get_vector("TGT") if d else None
            if cv is None or cv.get_element(op[1]) is None:
                return "skipped"
            val = {"text": ("cw1 \u00fc\u2603", "cw2"), "number": ("3.5", "1:30"), "switch": ("On", "Off")}.get(self.kind)
            if self.kind == "blob":
                from indi.device.values import BLOB

                cv[op[1]].value = BLOB(b"up" * (op[2] + 1), ".up")
            else:
                cv[op[1]].value = val[op[2]]
            cv.submit()
        return None

    def truths(self):
        return [DM.truth(s, d) for s, d in zip(self.specs, self.w.devices)]

    def canon(self):
        from mc.props.client_common import lib_view

        t = []
        for tr in self.truths():
            t.append(tuple((n, v["enabled"], v["state"], tuple((en, vrepr(e["value"])) for en, e in v["elements"].items())) for n, v in tr.items()))
        return (tuple(t), vrepr(lib_view(self.client)))


def vrepr(v):
    if isinstance(v, tuple):
        return tuple(vrepr(x) for x in v)
    if isinstance(v, (bytes, bytearray)):
        return ("bytes", len(v), hash(bytes(v)))
    return v


class ObserverView:
    """the same run seen through the in-process snooping client of another driver (it snoops on DEV0)"""

    def __init__(self, run):
        self._run = run
        self.client = run.observer
        self.snoop = True
        self.handshaken = {"DEV0"}

    def __getattr__(self, name):
        return getattr(self._run, name)


def judge(run, emitted_after_def=None, only_device=None):
    """oracle at quiescence; returns list of (clause, disc, what)"""
    from mc.props.client_common import elval

    fails = []
    p = run.p
    d0 = "variant=%s%s" % (p["variant"], ",snoop" if run.snoop else "")
    try:
        truths = run.truths()
    except DM.Missing as e:
        return [("declared-group-lost", "depth=%d" % p["depth"], str(e))]
    # the driver's own .enabled must agree with the history of enabling operations (the truth below is read
    # from the live driver, so a change that corrupts the flags themselves would otherwise go unnoticed)
    wantflag = run.flags["vec"] and run.flags["grp"]
    if truths[0]["TGT"]["enabled"] != wantflag:
        fails.append(("enabled-flag", d0, "DEV0/TGT.enabled is %r, the operations performed imply %r" % (truths[0]["TGT"]["enabled"], wantflag)))
    for vn, tv in truths[0].items():
        if vn != "TGT" and not tv["enabled"]:
            fails.append(("enabled-flag", d0 + ",bystander", "DEV0/%s became disabled" % vn))
    client = run.client
    want = set()
    for spec, t in zip(run.specs, truths):
        if spec["name"] not in run.handshaken:
            continue
        for vn, tv in t.items():
            if tv["enabled"]:
                want.add((spec["name"], vn))
    got = set()
    for dn in client.list_devices():
        if only_device is not None and dn != only_device:
            continue  # (definitions are broadcast: an observer also learns devices it did not ask about)
        for vn in client.get_device(dn).list_vectors():
            got.add((dn, vn))
    if got != want:
        extra, missing = sorted(got - want), sorted(want - got)
        why = "extra" if extra else "missing"
        which = (extra or missing)[0]
        fails.append(("property-set", d0 + "," + why + ("-target" if which[1] == "TGT" else "-other"), "client lists %r, device truth %r" % (sorted(got), sorted(want))))
    for (dn, vn) in sorted(got & want):
        tv = dict(zip([s["name"] for s in run.specs], truths))[dn][vn]
        cv = client.get_device(dn).get_vector(vn)
        if cv.state != tv["state"] and not (run.snoop and tv["kind"] == "blob"):
            fails.append(("state", d0, "%s/%s: client state %r, device %r" % (dn, vn, cv.state, tv["state"])))
        if cv.label != tv["label"] or cv.group != tv["group"]:
            fails.append(("metadata", d0, "%s/%s: client label/group %r/%r, device %r/%r" % (dn, vn, cv.label, cv.group, tv["label"], tv["group"])))
        en = [n for n, e in tv["elements"].items() if e["enabled"]]
        if list(cv.list_elements()) != en:
            fails.append(("element-set", d0, "%s/%s: client elements %r, device %r" % (dn, vn, cv.list_elements(), en)))
            continue
        for n in en:
            e = tv["elements"][n]
            val = elval(cv.get_element(n))
            if tv["kind"] == "number":
                ok = DM.number_matches(val, e["value"], e["spec"].get("format", "%f"))
            elif tv["kind"] == "blob":
                strict = (dn == "DEV0" and vn == "TGT" and run.blob_strict.get(n) and not run.snoop
                          and run.w.delivery == "whole" and run.w.chooser is None and not run.w.cuts and not getattr(run.w, "backpressure", False))
                ok = DM.blob_equiv(val, e["value"]) or (val is None and not strict)
            else:
                # an empty text and "no text" are the same value on the wire (an element without content); an in-process
                # client is handed the empty string itself
                ok = (val if val != "" else None) == (e["value"] if e["value"] != "" else None)
            if not ok:
                fails.append(("element-value", d0 + ",kind=%s" % tv["kind"], "%s/%s.%s: client %r, device %r" % (dn, vn, n, vshort(val), vshort(e["value"]))))
    return fails


def vshort(v):
    if isinstance(v, tuple) and v and isinstance(v[0], (bytes, bytearray)):
        return ("<%d bytes>" % len(v[0]), v[1])
    return v


def wire_mirror_check(run):
    """independent mirror rebuilt from the bytes the server wrote to the client (control connection),
    read by minidom; compared with the truth, including the metadata the library client drops."""
    fails = []
    p = run.p
    d0 = "variant=%s" % p["variant"]
    if run.snoop:
        return fails
    ctl = run.w.links[getattr(run, 'link_offset', 0)]
    text = ctl.server_ep.written().decode("latin1")
    els, rest = X.split_elements(text)
    if rest.strip():
        fails.append(("wire-garbage", d0, "server wrote stray characters %r" % rest[:60]))
    m = CM.Mirror()
    lastdef = {}
    for e in els:
        try:
            v = X.view_of_xml(e)
        except Exception as ex:
            fails.append(("wire-not-xml", d0, "%r: %r" % (e[:80], ex)))
            continue
        m.step(v)
        if v[0].startswith("def"):
            a = dict(v[1])
            lastdef[(a.get("device"), a.get("name"))] = v
    try:
        truths = run.truths()
    except DM.Missing:
        return fails
    names = [s["name"] for s in run.specs]
    for dn, t in zip(names, truths):
        for vn, tv in t.items():
            pr = m.devices.get(dn, {}).get(vn)
            if tv["enabled"] and pr is None:
                fails.append(("wire-mirror", d0 + ",missing", "the wire never defined enabled property %s/%s (or deleted it)" % (dn, vn)))
            elif not tv["enabled"] and pr is not None:
                fails.append(("wire-mirror", d0 + ",not-deleted", "property %s/%s is disabled but the wire still defines it" % (dn, vn)))
            elif pr is not None:
                if pr.state != tv["state"] and tv["kind"] != "blob":
                    fails.append(("wire-mirror", d0 + ",state", "%s/%s wire state %r, device %r" % (dn, vn, pr.state, tv["state"])))
                probs = DM.check_def_view(lastdef[(dn, vn)], dn, dict(tv, state=dict(lastdef[(dn, vn)][1]).get("state"), elements={n: dict(e, value=None) for n, e in tv["elements"].items()})) if False else []
                ld = dict(lastdef[(dn, vn)][1])
                if tv["perm"] and ld.get("perm") != tv["perm"]:
                    fails.append(("wire-mirror", d0 + ",perm", "%s/%s defined with perm %r, declared %r" % (dn, vn, ld.get("perm"), tv["perm"])))
                if tv["rule"] and ld.get("rule") != tv["rule"]:
                    fails.append(("wire-mirror", d0 + ",rule", "%s/%s defined with rule %r, declared %r" % (dn, vn, ld.get("rule"), tv["rule"])))
                for n, e in tv["elements"].items():
                    if not e["enabled"] or tv["kind"] == "blob":
                        continue
                    wv = pr.elements.get(n, "<absent>")
                    if tv["kind"] == "number":
                        ok = wv != "<absent>" and DM.number_matches(wv, e["value"], e["spec"].get("format", "%f"))
                    else:
                        ok = wv == (e["value"] if e["value"] != "" else None)
                    if not ok:
                        fails.append(("wire-mirror", d0 + ",value,kind=%s" % tv["kind"], "%s/%s.%s wire %r, device %r" % (dn, vn, n, wv, e["value"])))
    return fails


def run_history(p, path, snoop, delivery="whole", cuts=None, chooser=None, judge_each=False):
    """execute a history; delivery settings apply to the LAST operation only. returns (fails, canon, info)"""
    try:
        run = Run(p, snoop)
    except Exception as e:  # noqa
        from mc import lib

        return [("handshake-failed", "variant=%s,%s" % (p["variant"], lib.exc_site(e)), "connecting and handshaking failed: %r" % (e,))], None, {}
    try:
        try:
            run.truths()
        except DM.Missing as e:
            return [("declared-group-lost", "depth=%d" % p["depth"], str(e))], None, {}
        info = {}
        paused_eps = []
        for k, op in enumerate(path):
            last = k == len(path) - 1
            if last and getattr(run, "dead_link", None) is not None:
                run.dead_link.server_ep.transport.closing = True
            if delivery == "backpressure" and not paused_eps and k >= len(path) - 2:
                # the clients read slowly: from here on the server's writes wait in drain() (flow control paused) while
                # the last two operations publish; afterwards the clients catch up and must converge all the same
                run.w.backpressure = True  # (the two connections then drain in an order of their own: I-13 / I-18)
                for l in run.w.links:
                    l.server_ep.pause()
                    l.client_ep.pause()
                    paused_eps += [l.server_ep, l.client_ep]
            if last and delivery != "backpressure":
                run.w.delivery = delivery
                run.w.chooser = chooser
                if cuts is not None:
                    s2c = run.w.links[getattr(run, 'link_offset', 0)].s2c if run.w.links else None
                    if s2c is not None:
                        base = s2c.delivered + len(s2c.pending)
                        run.w.cuts = {s2c.name: [base + c for c in cuts]}
                        info["base"] = base
            try:
                r = run.apply(op)
            except Exception as e:
                from mc import lib

                return [("op-raises", "op=%s,%s" % (op[0], lib.exc_site(e)), "%r after %r: %r" % (op, path[:k], e))], None, info
            run.w.settle()
            if r == "skipped":
                info["skipped"] = True
        for ep in paused_eps:
            ep.resume()
        if paused_eps:
            run.w.settle()
        if run.w.links:
            s2c = run.w.links[getattr(run, 'link_offset', 0)].s2c
            info["s2c_total"] = s2c.delivered
        fails = judge(run)
        if getattr(run, "observer", None) is not None:
            # a second observer of the same history: everybody converges, not only the client that acted
            fails += [(c, d + ",second-observer", w) for c, d, w in judge(ObserverView(run), only_device="DEV0")]
        fails += wire_mirror_check(run)
        errs = run.w.loop.collect_errors()
        if errs:
            fails.append(("loop-error", "variant=%s" % p["variant"], repr([e.get("message") for e in errs])[:300]))
        if not snoop and any(l.server_task.done() for l in run.w.links):
            fails.append(("server-connection-ended", "variant=%s" % p["variant"], "a server connection handler ended"))
        return fails, run.canon(), info
    finally:
        run.close()


def run_shard(shard):
    tier, i = shard
    p = family(tier)[i]
    depth = 2 if tier == "quick" else 3
    res = {"states": 0, "transitions": 0, "executions": 0, "violations": [], "samples": [], "counters": {}}
    sig = {}

    def record(path, snoop, extra, fails):
        for clause, disc, what in fails:
            key = (clause, disc)
            if key in sig:
                sig[key]["count"] += 1
            else:
                sig[key] = {"clause": clause, "disc": disc, "count": 1, "what": "%r history %r %s: %s" % (p, path, extra, what), "replay": dict(p=p, path=[list(o) for o in path], snoop=snoop, **extra)}

    from collections import deque

    allops = ops_for(p)
    for snoop in (False, True) if p["ndev"] >= 2 else (False,):
        fails, c0, info = run_history(p, [], snoop)
        res["executions"] += 1
        record([], snoop, {}, fails)
        if c0 is None:
            continue
        seen = {c0: ()}
        fr = deque([c0])
        while fr:
            st = fr.popleft()
            path = seen[st]
            res["states"] += 1
            if len(path) >= depth:
                continue
            for op in allops:
                if snoop and op[0].startswith("cwrite"):
                    continue
                newpath = list(path) + [op]
                fails, c, info = run_history(p, newpath, snoop)
                res["executions"] += 1
                res["transitions"] += 1
                record(newpath, snoop, {}, fails)
                if fails or c is None:
                    continue
                if c not in seen:
                    seen[c] = tuple(newpath)
                    fr.append(c)
                # delivery schedules for this transition (network client only)
                if snoop or info.get("skipped"):
                    continue
                if not snoop and not info.get("skipped"):
                    f5, c5, _ = run_history(p, newpath, snoop, delivery="backpressure")
                    res["executions"] += 1
                    record(newpath, snoop, {"delivery": "backpressure"}, f5)
                    if not f5 and c5 != c and p["variant"] != "blob":
                        record(newpath, snoop, {"delivery": "backpressure"}, [("schedule-dependent-outcome", "variant=%s,delivery=backpressure" % p["variant"], "final state differs from FIFO delivery")])
                if len(newpath) == 1 or (tier == "thorough" and len(newpath) == 2):
                    for delivery in ("byte", "chunk:7"):
                        f2, c2, _ = run_history(p, newpath, snoop, delivery=delivery)
                        res["executions"] += 1
                        record(newpath, snoop, {"delivery": delivery}, f2)
                        if not f2 and c2 != c and p["variant"] != "blob":
                            record(newpath, snoop, {"delivery": delivery}, [("schedule-dependent-outcome", "variant=%s,delivery=%s" % (p["variant"], delivery), "final state differs from FIFO delivery")])
                    # another pipe first (deviation bound 1 quick / 2 thorough)
                    for ch, out in dfs.explore(lambda chs: run_history(p, newpath, snoop, chooser=chs), 1 if tier == "quick" else 2, 40):
                        if not ch.trace or not any(ch.trace):
                            continue
                        f3, c3, _ = out
                        res["executions"] += 1
                        record(newpath, snoop, {"choices": ch.trace}, f3)
                        if not f3 and c3 != c and p["variant"] != "blob":
                            record(newpath, snoop, {"choices": ch.trace}, [("schedule-dependent-outcome", "variant=%s,pipe-order" % p["variant"], "final state differs from FIFO delivery")])
                if len(newpath) == 1:
                    # every k-th single cut of the bytes this transition produced on the control connection
                    fb, cb, ib = run_history(p, newpath, snoop, cuts=[])
                    total = ib.get("s2c_total", 0) - ib.get("base", 0)
                    step = 3 if tier == "thorough" else 17
                    for cpos in range(1, total, step):
                        f4, c4, _ = run_history(p, newpath, snoop, cuts=[cpos])
                        res["executions"] += 1
                        record(newpath, snoop, {"cuts": [cpos]}, f4)
                        if not f4 and c4 != c and p["variant"] != "blob":
                            record(newpath, snoop, {"cuts": [cpos]}, [("schedule-dependent-outcome", "variant=%s,cut" % p["variant"], "final state differs from FIFO delivery")])
    res["violations"] = list(sig.values())
    if i == 0:
        res["samples"].append({"deployment": p, "history": [list(o) for o in allops[:2]], "schedules": ["whole FIFO", "byte", "chunk:7", "other pipe first", "single cut @k"]})
    return res


def finish(tier, seed, m):
    cov = {
        "states": m["states"],
        "transitions": m["transitions"],
        "traces_validated_against_impl": m["executions"],
        "end_to_end_executions": m["executions"],
        "deployments": len(family(tier)),
        "samples": m["samples"][:1],
        "exhaustive": True,
        "explanation": "states = distinct (driver truth, client view) states reached per deployment within the history depth; every history is executed end to end from a fresh world; delivery schedules as stated",
    }
    cov["_vacuity_errors"] = [] if m["executions"] > 1000 else ["few executions"]
    return cov


def _t(x):
    if isinstance(x, list):
        return tuple(_t(i) for i in x)
    return x


def replay(rep):
    p = rep["p"]
    path = [_t(o) for o in rep["path"]]
    ch = dfs.Chooser(rep["choices"]) if rep.get("choices") else None
    fails, c, info = run_history(p, path, rep.get("snoop", False), delivery=rep.get("delivery", "whole"), cuts=rep.get("cuts"), chooser=ch)
    return [{"clause": a, "disc": b, "what": w} for a, b, w in fails]
