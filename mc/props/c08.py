"""C08 - BLOB payloads arrive bit-exact in both directions and never stall a link.

(a) size sweep on the end-to-end world: EVERY payload length 0..N (N = 2400 quick / 6200
    thorough; crosses the 1024-byte read size and the 2048-character threshold several times)
    x direction {driver -> library Client (dedicated BLOB connection), driver -> raw connection
    with policy unset/Never/Also/Only, client -> driver} under natural (whole / 1024-byte)
    delivery, every 16th length also byte-by-byte; a following ordinary message must arrive;
(b) partial BLOB: the BLOB connection is paused at every k-th cut inside the message while an
    ordinary message travels on the control connection, then resumed;
(c) all partitions (explicit-state graph of the real Buffer, threshold disabled) for short
    setBLOBVector messages followed by an ordinary message;
(d) thorough: 64 KiB, 256 KiB and 1 MiB payloads at natural chunking.
Watchdogs: Buffer.process CPU limit (Hang), lasso detector, loop quiescence limits.
"""
import base64

from mc.core import bufgraph as BG
from mc.ref import xmlview as X

LEVEL = "model_checking"
ASSUMPTIONS = [
    "payload contents are a seeded byte pattern containing all 256 byte values; formats from a small alphabet",
    "natural delivery = whatever chunks the handlers write, read through CPython's StreamReader.read(1024)",
    "payloads above 1 MiB are not exercised (Buffer cost grows quadratically with the message length)",
]
SHARD_LIMIT = {"quick": 900, "thorough": 14400}
FORMATS = [".fits", ".bin", "", ".x.gz", "a b", "<&>", ".fits.z", ".z", ".f\u00efts\u2603"]  # *.z: INDI's convention for compressed payloads



def scenario(fn):
    """an exception escaping from the library into the scenario (a device assignment that raises because of a
    connection's state, a send that raises) is a violation of "never stall a link", not a harness error"""
    import functools
    import inspect

    sig_ = inspect.signature(fn)

    @functools.wraps(fn)
    def wrapper(*a, **kw):
        try:
            return fn(*a, **kw)
        except Exception as e:  # noqa
            from mc.core.e2e import HandshakeFailed

            if isinstance(e, HandshakeFailed) or type(e).__name__ == "TooManyHangs":
                raise
            from mc import lib

            bound = sig_.bind(*a, **kw)
            fails = bound.arguments.get("fails")
            if fails is None:
                raise
            fails.append(("raises", "scenario=%s,%s" % (fn.__name__, lib.exc_site(e)), "%s%r: %r" % (fn.__name__, tuple(x for x in a if not isinstance(x, (list, dict)))[:4], e)))

    return wrapper


def payload(n, seed):
    return bytes(((i * 13 + seed * 7 + (i >> 8)) % 256) for i in range(n))


def spec():
    return dict(
        name="DEV0",
        groups=[
            dict(
                attr="g",
                name="G",
                vectors=[
                    dict(attr="bl", kind="blob", name="BL", elements=[dict(attr="a", name="A"), dict(attr="b", name="B")]),
                    dict(attr="t", kind="text", name="T", elements=[dict(attr="a", name="A", default="x")]),
                ],
            )
        ],
    )


def shards(tier, seed):
    N = 2400 if tier == "quick" else 6200
    sh = []
    chunk = 50 if tier == "quick" else 100
    for lo in range(0, N + 1, chunk):
        sh.append((tier, seed, "sweep", lo, min(N, lo + chunk - 1)))
    for i in range(4):
        sh.append((tier, seed, "partial", i, 4))
    for i in range(6):
        sh.append((tier, seed, "graph", i, 6))
    if tier == "thorough":
        for n in (65536, 262144, 1048576):
            sh.append((tier, seed, "large", n, 0))
    return sh


def blob_of(n, seed):
    from indi.device.values import BLOB

    return BLOB(payload(n, seed), FORMATS[n % len(FORMATS)])


@scenario
def d1_driver_to_client(n, seed, delivery, fails, d, connect=None):
    """driver publishes; library Client must hold identical bytes; ordinary traffic follows"""
    from mc.core import e2e

    w = e2e.World([spec()], guard_buffers=True)
    try:
        c = w.make_client(connect)
        dev = w.devices[0]
        w.delivery = delivery
        b = blob_of(n, seed)
        try:
            dev.g.bl.a.value = b
            w.settle()
            dev.g.t.a.value = "after-blob"
            w.settle()
        except Exception as e:
            fails.append(("stalled-or-raised", d + ",dir=driver-to-client", "n=%d: %r" % (n, e)))
            return
        el = c["DEV0"]["BL"]["A"].value
        if el is None or bytes(el.binary) != b.binary or el.format != b.format or el.size != len(b.binary):
            got = None if el is None else (len(el.binary), el.format)
            fails.append(("payload-differs", d + ",dir=driver-to-client", "n=%d format %r: client has %r" % (n, b.format, got)))
        if c["DEV0"]["T"]["A"].value != "after-blob":
            fails.append(("traffic-after-blob-lost", d + ",dir=driver-to-client", "n=%d: the ordinary update after the BLOB did not arrive" % n))
        ctl_bytes = w.links[0].server_ep.written()
        if b"setBLOBVector" in ctl_bytes:
            fails.append(("payload-on-control-connection", d, "n=%d: the control connection (policy Never) carried a setBLOBVector" % n))
        for l in w.links:
            if l.server_task.done():
                fails.append(("connection-ended", d + ",dir=driver-to-client", "n=%d: server handler of %s ended" % (n, l.name)))
        errs = w.loop.collect_errors()
        if errs:
            fails.append(("loop-error", d + ",dir=driver-to-client", "n=%d: %r" % (n, [e.get("message") for e in errs][:2])))
    finally:
        w.close()


@scenario
def d1_element_added_later(n, seed, how, fails):
    """the BLOB property is first defined with one element; the driver then shows a second one (re-definition with an
    added member) and publishes a BLOB on it: the library Client must hold it"""
    import copy

    from mc.core import e2e

    sp = copy.deepcopy(spec())
    sp["groups"][0]["vectors"][0]["elements"][1]["enabled"] = False
    w = e2e.World([sp], guard_buffers=True)
    try:
        c = w.make_client()
        dev = w.devices[0]
        dev.g.bl.a.value = blob_of(3, seed)
        w.settle()
        dev.g.bl.b.enabled = True
        if how == "property-reenabled":
            dev.g.bl.enabled = True  # re-sends the definition (now with B) and the update
        else:
            c.handshake()  # the client asks again and gets the definition with B
        w.settle()
        b = blob_of(n, seed)
        dev.g.bl.b.value = b
        dev.g.t.a.value = "after-blob"
        w.settle()
        dd = "element-added-by-redefinition,%s" % how
        vec = c["DEV0"]["BL"]
        el = vec["B"].value if "B" in vec else "<element unknown to the client>"
        if el is None or isinstance(el, str) or bytes(el.binary) != b.binary or el.format != b.format:
            fails.append(("payload-differs", dd, "n=%d: client has %r for the added element" % (n, el if el is None or isinstance(el, str) else (len(el.binary), el.format))))
        if c["DEV0"]["T"]["A"].value != "after-blob":
            fails.append(("traffic-after-blob-lost", dd, "n=%d: the ordinary update after the BLOB did not arrive" % n))
    finally:
        w.close()


@scenario
def d2_driver_to_raw(n, seed, policy, delivery, fails, d):
    from mc.core import e2e

    w = e2e.World([spec()], guard_buffers=True)
    try:
        link = w.new_link("raw")
        w.settle()
        ep = link.server_ep
        ep.feed(b'<getProperties version="1.7"/>')
        if policy:
            ep.feed(("<enableBLOB device=\"DEV0\">%s</enableBLOB>" % policy).encode())
        w.settle()
        mark = len(ep.written())
        b = blob_of(n, seed)
        dev = w.devices[0]
        dev.g.bl.a.value = b
        dev.g.t.a.value = "after-blob"
        w.settle()
        tail = ep.written()[mark:].decode("latin1")
        els, rest = X.split_elements(tail)
        blobs = [e for e in els if e.startswith("<setBLOBVector")]
        texts = [e for e in els if e.startswith("<setTextVector")]
        dd = d + ",dir=driver-to-raw,policy=%s" % policy
        want_blob = policy in ("Also", "Only")
        want_text = policy in (None, "Never", "Also")
        if bool(blobs) != want_blob:
            fails.append(("blob-policy", dd, "n=%d: %d setBLOBVector messages delivered" % (n, len(blobs))))
        if bool(texts) != want_text:
            fails.append(("text-policy", dd, "n=%d: %d setTextVector messages delivered" % (n, len(texts))))
        if rest.strip():
            fails.append(("garbled", dd, "n=%d: stray %r" % (n, rest[:40])))
        for e in blobs:
            v = X.view_of_xml(e)
            ch = {dict(c[1])["name"]: c for c in v[3]}
            ca = dict(ch["A"][1])
            try:
                raw = base64.b64decode(ch["A"][2] or "", validate=True)  # standard alphabet, as INDI specifies
            except Exception as e:
                fails.append(("payload-not-base64", dd, "n=%d: wire payload is not standard base64: %r" % (n, e)))
                continue
            if raw != b.binary or ca.get("format") != b.format or ca.get("size") != str(len(b.binary)):
                fails.append(("payload-differs", dd, "n=%d: wire carries %d bytes format %r size %r" % (n, len(raw), ca.get("format"), ca.get("size"))))
    finally:
        w.close()


@scenario
def d2_property_scoped_policy(n, seed, first, fails):
    """enableBLOB may name a property (device + name).  Two devices publish same-named BLOB properties: what a
    connection asks for one device's property never changes what it gets from the OTHER device"""
    import copy

    from mc.core import e2e

    sp1 = copy.deepcopy(spec())
    sp1["name"] = "DEV1"
    w = e2e.World([spec(), sp1], guard_buffers=True)
    try:
        link = w.new_link("raw")
        w.settle()
        ep = link.server_ep
        ep.feed(b'<getProperties version="1.7"/>')
        w.settle()
        if first == "scoped-Also":
            ep.feed(b'<enableBLOB device="DEV0" name="BL">Also</enableBLOB>')
            want1 = False  # nothing was asked for DEV1
        else:
            ep.feed(b'<enableBLOB device="DEV1">Also</enableBLOB><enableBLOB device="DEV0" name="BL">Never</enableBLOB>')
            want1 = True  # DEV1 was enabled device-wide; the later request concerns DEV0 only
        w.settle()
        mark = len(ep.written())
        b = blob_of(n, seed)
        w.devices[1].g.bl.a.value = b
        w.devices[1].g.t.a.value = "after-blob"
        w.settle()
        tail = ep.written()[mark:].decode("latin1")
        els, rest = X.split_elements(tail)
        blobs = [e for e in els if e.startswith("<setBLOBVector") and 'device="DEV1"' in e]
        dd = "property-scoped-enableBLOB,%s" % first
        if bool(blobs) != want1:
            fails.append(("blob-policy", dd, "n=%d: the connection received %d setBLOBVector of DEV1 (expected %s)" % (n, len(blobs), "one" if want1 else "none")))
        if not any(e.startswith("<setTextVector") for e in els):
            fails.append(("text-policy", dd, "n=%d: the ordinary update of DEV1 did not arrive" % n))
    finally:
        w.close()


DAMAGED = {
    "size-mismatch": '<oneBLOB name="A" size="9" format=".x">QUJD</oneBLOB>',
    "bad-base64": '<oneBLOB name="A" size="3" format=".x">@@@@</oneBLOB>',
    "size-not-a-number": '<oneBLOB name="A" size="big" format=".x">QUJD</oneBLOB>',
    "truncated-payload": '<oneBLOB name="A" size="300" format=".x">QUJDREVG</oneBLOB>',
    "second-element-damaged": '<oneBLOB name="A" size="3" format=".x">QUJD</oneBLOB><oneBLOB name="B" size="9" format=".x">@@</oneBLOB>',
    "unknown-element": '<oneBLOB name="ZZ" size="3" format=".x">QUJD</oneBLOB>',
}


@scenario
def d2_after_damaged_upload(n, seed, damage, fails):
    """a client uploads a damaged / partial BLOB (refused or partly applied by the device); what the DRIVER publishes
    afterwards still reaches every connection that enabled BLOBs, bit-exact, and ordinary traffic goes on"""
    from mc.core import e2e

    w = e2e.World([spec()], guard_buffers=True)
    try:
        up = w.new_link("uploader")
        li = w.new_link("listener")
        w.settle()
        for l in (up, li):
            l.server_ep.feed(b'<getProperties version="1.7"/><enableBLOB device="DEV0">Also</enableBLOB>')
        w.settle()
        up.server_ep.feed(('<newBLOBVector device="DEV0" name="BL">%s</newBLOBVector>' % DAMAGED[damage]).encode())
        w.settle()
        marks = {l: len(l.server_ep.written()) for l in (up, li)}
        b = blob_of(n, seed)
        w.devices[0].g.bl.a.value = b
        w.devices[0].g.t.a.value = "after-blob"
        w.settle()
        dd = "after-damaged-upload=%s" % damage
        for l in (up, li):
            tail = l.server_ep.written()[marks[l] :].decode("latin1")
            els, rest = X.split_elements(tail)
            blobs = [e for e in els if e.startswith("<setBLOBVector")]
            texts = [e for e in els if e.startswith("<setTextVector")]
            if not blobs:
                fails.append(("blob-policy", dd, "n=%d: the driver's BLOB published after the damaged upload did not reach connection %s" % (n, l.name)))
            if not texts:
                fails.append(("text-policy", dd, "n=%d: the ordinary update after the damaged upload did not reach connection %s" % (n, l.name)))
            for e in blobs[-1:]:
                v = X.view_of_xml(e)
                ch = {dict(c[1])["name"]: c for c in v[3]}
                try:
                    raw = base64.b64decode(ch["A"][2] or "", validate=True)
                except Exception as ex:
                    fails.append(("payload-not-base64", dd, "n=%d: %r" % (n, ex)))
                    continue
                if raw != b.binary or dict(ch["A"][1]).get("format") != b.format:
                    fails.append(("payload-differs", dd, "n=%d: connection %s got %d bytes format %r" % (n, l.name, len(raw), dict(ch["A"][1]).get("format"))))
            if l.server_task.done():
                fails.append(("connection-closed", dd, "n=%d: the server closed connection %s" % (n, l.name)))
    finally:
        w.close()


@scenario
def d2_policy_sequence(n, seed, seq, fails):
    """one raw connection changes its mind: the LAST enableBLOB decides what it receives"""
    from mc.core import e2e

    w = e2e.World([spec()], guard_buffers=True)
    try:
        link = w.new_link("raw")
        w.settle()
        ep = link.server_ep
        ep.feed(b'<getProperties version="1.7"/>')
        for pol in seq:
            if pol == "@redefine":
                # the device announces that it is gone and is then defined again (a driver restart behind a proxy):
                # what the connection asked for stays in force
                import indi.message as M

                dev = w.devices[0]
                dev.send_message(M.DelProperty(device="DEV0"))
                w.settle()
                ep.feed(b'<getProperties version="1.7" device="DEV0"/>')
            elif pol == "@vector-off-on":
                w.devices[0].g.bl.enabled = False
                w.settle()
                w.devices[0].g.bl.enabled = True
            elif pol == "@blob":
                w.devices[0].g.bl.a.value = blob_of(10, seed)
            else:
                ep.feed(("<enableBLOB device=\"DEV0\">%s</enableBLOB>" % pol).encode())
            w.settle()
        mark = len(ep.written())
        b = blob_of(n, seed)
        w.devices[0].g.bl.a.value = b
        w.devices[0].g.t.a.value = "after-blob"
        w.settle()
        tail = ep.written()[mark:].decode("latin1")
        els, rest = X.split_elements(tail)
        blobs = [e for e in els if e.startswith("<setBLOBVector")]
        texts = [e for e in els if e.startswith("<setTextVector")]
        last = [x for x in seq if not x.startswith("@")][-1]
        dd = "policy-sequence=%s" % ">".join(seq)
        if bool(blobs) != (last in ("Also", "Only")):
            fails.append(("blob-policy", dd, "n=%d: after enableBLOB %s the connection received %d setBLOBVector" % (n, " then ".join(seq), len(blobs))))
        if bool(texts) != (last in ("Never", "Also")):
            fails.append(("text-policy", dd, "n=%d: after enableBLOB %s the connection received %d setTextVector" % (n, " then ".join(seq), len(texts))))
    finally:
        w.close()


@scenario
def d2_large_paused(n, seed, fails):
    """a BLOB larger than any slice size goes to a raw connection whose flow control is paused right after the first
    write, while an ordinary update is published behind it; after resuming both must arrive intact and in order"""
    from mc.core import e2e

    w = e2e.World([spec()], guard_buffers=True)
    try:
        link = w.new_link("raw")
        w.settle()
        ep = link.server_ep
        ep.feed(b'<getProperties version="1.7"/><enableBLOB device="DEV0">Also</enableBLOB>')
        w.settle()
        mark = len(ep.written())
        b = blob_of(n, seed)
        dev = w.devices[0]
        ep.pause()
        dev.g.bl.a.value = b
        w.loop.quiesce()
        dev.g.t.a.value = "after-blob"
        w.loop.quiesce()
        for _ in range(6):  # resume / pause a few times: every slice boundary is a point where another sender could cut in
            ep.resume()
            w.loop.step()
            ep.pause()
            w.loop.quiesce()
        ep.resume()
        w.settle()
        tail = ep.written()[mark:].decode("latin1")
        els, rest = X.split_elements(tail)
        dd = "large-paused"
        names = [e[1:e.index(" ")] for e in els]
        if names != ["setBLOBVector", "setTextVector"] or rest.strip():
            fails.append(("garbled", dd, "n=%d: connection received elements %r (stray %r)" % (n, names, rest[:30])))
            return
        v = X.view_of_xml(els[0])
        ch = {dict(c[1])["name"]: c for c in v[3]}
        try:
            raw = base64.b64decode(ch["A"][2] or "", validate=True)
        except Exception as e:
            fails.append(("payload-not-base64", dd, "n=%d: %r" % (n, e)))
            return
        if raw != b.binary:
            fails.append(("payload-differs", dd, "n=%d: %d bytes received" % (n, len(raw))))
    finally:
        w.close()


@scenario
def d1_reuse(n, seed, fails):
    """the driver keeps ONE BLOB object (a frame buffer), changes its contents and publishes it again"""
    from indi.device.values import BLOB

    from mc.core import e2e

    w = e2e.World([spec()], guard_buffers=True)
    try:
        c = w.make_client()
        dev = w.devices[0]
        frame = BLOB(payload(n, seed), ".frame")
        dev.g.bl.a.value = frame
        w.settle()
        for k, newlen in enumerate((n, n + 3, max(0, n - 2))):
            frame.binary = payload(newlen, seed + k + 1)
            dev.g.bl.a.value = frame
            w.settle()
            el = c["DEV0"]["BL"]["A"].value
            if el is None or bytes(el.binary) != frame.binary or el.size != len(frame.binary):
                fails.append(("payload-differs", "reused-blob-object", "n=%d: after refilling the same BLOB object with %d bytes the client has %r" % (n, newlen, None if el is None else len(el.binary))))
                break
    finally:
        w.close()


@scenario
def d3_client_to_driver(n, seed, delivery, fails, d):
    from mc.core import e2e

    w = e2e.World([spec()], guard_buffers=True)
    try:
        c = w.make_client()
        w.delivery = delivery
        b = blob_of(n, seed)
        dd = d + ",dir=client-to-driver"
        try:
            c["DEV0"]["BL"]["A"].value = b
            sent0 = w.links[0].c2s.delivered + len(w.links[0].c2s.pending)
            c["DEV0"]["BL"].submit()
            w.loop.quiesce()
            msglen = w.links[0].c2s.delivered + len(w.links[0].c2s.pending) - sent0
            # the server's receive buffer treats more than 2048 buffered characters without a complete message as junk
            dd += ",upload-message%s2048" % (">" if msglen > 2048 else "<=")
            w.settle()
            c["DEV0"]["T"]["A"].value = "after-upload"
            c["DEV0"]["T"].submit()
            w.settle()
        except Exception as e:
            fails.append(("stalled-or-raised", dd, "n=%d: %r" % (n, e)))
            return
        v = w.devices[0].g.bl.a.value
        if v is None or v.binary != b.binary or v.format != b.format:
            fails.append(("payload-differs", dd, "n=%d: driver has %r" % (n, None if v is None else (len(v.binary), v.format))))
        if w.devices[0].g.t.a.value != "after-upload":
            fails.append(("traffic-after-blob-lost", dd, "n=%d: the write following the upload was not applied" % n))
        for l in w.links:
            if l.server_task.done():
                fails.append(("connection-ended", dd, "n=%d: server handler of %s ended" % (n, l.name)))
        # the uploader's own view shows the uploaded BLOB (it comes back on the BLOB connection)
        el = c["DEV0"]["BL"]["A"].value
        if el is None or bytes(el.binary) != b.binary:
            fails.append(("client-view-stale", dd, "n=%d: uploader sees %r" % (n, None if el is None else len(el.binary))))
    finally:
        w.close()


@scenario
def partial_case(n, seed, cut_frac, fails):
    """BLOB connection stalls at a cut inside the BLOB message; control traffic continues; then resumes"""
    from mc.core import e2e

    d = "partial"
    w = e2e.World([spec()], guard_buffers=True)
    try:
        c = w.make_client()
        dev = w.devices[0]
        blob_link = w.links[1]
        b = blob_of(n, seed)
        dev.g.bl.a.value = b
        w.loop.quiesce()
        total = len(blob_link.s2c.pending)
        cut = max(1, min(total - 1, int(total * cut_frac)))
        # deliver only the first part on the BLOB connection
        blob_link.s2c.deliver(cut)
        w.loop.quiesce()
        # ordinary traffic on the control connection while the BLOB connection is stalled
        dev.g.t.a.value = "during-stall"
        w.loop.quiesce()
        ctl = w.links[0]
        ctl.s2c.deliver()
        w.loop.quiesce()
        if c["DEV0"]["T"]["A"].value != "during-stall":
            fails.append(("stalled-blob-blocks-control", d, "n=%d cut=%d/%d: ordinary update not delivered while the BLOB stream is paused" % (n, cut, total)))
        if c.blob_connection_handler is None:
            pass
        w.settle()
        el = c["DEV0"]["BL"]["A"].value
        if el is None or bytes(el.binary) != b.binary or el.format != b.format:
            fails.append(("payload-differs", d, "n=%d cut=%d/%d: after resuming client has %r" % (n, cut, total, None if el is None else len(el.binary))))
        dev.g.t.a.value = "after-resume"
        w.settle()
        if c["DEV0"]["T"]["A"].value != "after-resume":
            fails.append(("traffic-after-blob-lost", d, "n=%d: ordinary update after the resumed BLOB did not arrive" % n))
        errs = w.loop.collect_errors()
        if errs:
            fails.append(("loop-error", d, "n=%d: %r" % (n, [e.get("message") for e in errs][:2])))
    finally:
        w.close()


def graph_case(n, seed, res, fails):
    """all partitions of <setBLOBVector n bytes> + <setTextVector> on the real Buffer with the threshold disabled"""
    import indi.message as M
    from indi.message import one_parts

    from mc.props import c02

    b = payload(n, seed)
    m1 = M.SetBLOBVector(device="D", name="BL", state="Ok", children=[one_parts.OneBLOB(name="A", size=len(b), format=".x", value=base64.b64encode(b).decode() if n else None)])
    m2 = M.SetTextVector(device="D", name="T", state="Ok", children=[one_parts.OneText(name="A", value="after")])
    t1 = m1.to_string().decode("latin1")
    t2 = m2.to_string().decode("latin1")
    S = t1 + t2
    exp = [(len(t1.rstrip("\n")), X.view_of_xml(t1), None), (len(S.rstrip("\n")), X.view_of_xml(t2), None)]
    chk = c02.make_check(exp, "None")
    r = BG.explore(S, None, chk)
    res["states"] += r["states"]
    res["transitions"] += r["transitions"]
    for f, pieces in r["violations"]:
        for clause, disc, what in f:
            fails.append((clause, "graph," + disc, "n=%d pieces %r: %s" % (n, [len(p) for p in pieces][:12], what)))


def run_shard(shard):
    tier, seed, what = shard[0], shard[1], shard[2]
    res = {"states": 0, "transitions": 0, "executions": 0, "violations": [], "samples": [], "counters": {}}
    sig = {}

    hangs = [0]

    class TooManyHangs(Exception):
        pass

    def absorb(fails, rep):
        from mc.core import e2e, guard

        hc = max(e2e.World.hang_count, guard.hangs())
        if hc > hangs[0]:
            hangs[0] = hc
            fails = list(fails) + [("hang", "buffer-process-cpu-limit", "Buffer.process was stopped by the CPU watchdog (%d times in this shard) - %r" % (hangs[0], rep))]
        for clause, disc, whatmsg in fails:
            if "no quiescence" in whatmsg:
                hangs[0] += 1
            key = (clause, disc)
            if key in sig:
                sig[key]["count"] += 1
            else:
                sig[key] = {"clause": clause, "disc": disc, "count": 1, "what": whatmsg, "replay": rep}
        if hangs[0] >= 2:
            raise TooManyHangs()  # every further execution would burn the CPU watchdog again: the finding is recorded

    from mc.core.e2e import HandshakeFailed

    try:
        _run(shard, tier, seed, what, res, absorb)
    except TooManyHangs:
        res["counters"]["aborted_after_hangs"] = 1
    except HandshakeFailed as e:
        key = ("handshake-failed", "client-start")
        sig[key] = {"clause": key[0], "disc": key[1], "count": 1, "what": str(e), "replay": dict(kind="d1", n=0, seed=seed, mode="whole")}
    res["states"] += res["executions"]
    res["transitions"] += res["executions"]
    res["violations"] = list(sig.values())
    return res


def _run(shard, tier, seed, what, res, absorb):
    if what == "sweep":
        lo, hi = shard[3], shard[4]
        for n in range(lo, hi + 1):
            modes = ["whole"] + (["byte"] if n % 16 == 0 else [])
            for mode in modes:
                d = "delivery=%s" % mode
                f = []
                d1_driver_to_client(n, seed, mode, f, d)
                absorb(f, dict(kind="d1", n=n, seed=seed, mode=mode))
                f = []
                d3_client_to_driver(n, seed, mode, f, d)
                absorb(f, dict(kind="d3", n=n, seed=seed, mode=mode))
                res["executions"] += 2
            pol = (None, "Never", "Also", "Only")[n % 4]
            pols = (None, "Never", "Also", "Only") if n % 8 == 0 else (pol,)
            for p in pols:
                f = []
                d2_driver_to_raw(n, seed, p, "whole", f, "delivery=whole")
                absorb(f, dict(kind="d2", n=n, seed=seed, policy=p))
                res["executions"] += 1
        if lo == 0:
            import itertools as _it

            for seq in _it.permutations(("Never", "Also", "Only"), 2):
                f = []
                d2_policy_sequence(200, seed, list(seq), f)
                absorb(f, dict(kind="polseq", n=200, seed=seed, seq=list(seq)))
                res["executions"] += 1
            for seq in (("Also", "@redefine"), ("Only", "@redefine"), ("Also", "@blob", "@redefine"), ("Never", "Also", "@vector-off-on"), ("Only", "@blob", "@vector-off-on"), ("Also", "@redefine", "Never"), ("Never", "@redefine", "Also")):
                f = []
                d2_policy_sequence(300, seed, list(seq), f)
                absorb(f, dict(kind="polseq", n=300, seed=seed, seq=list(seq)))
                res["executions"] += 1
            # the client's control and BLOB connections get established with latency, in either order
            for order in (("ctl", "blob"), ("blob", "ctl")):
                for n in (0, 7, 1500, 2300):
                    f = []
                    d1_driver_to_client(n, seed, "whole", f, "delivery=whole,connect=%s-first" % order[0], connect=order)
                    absorb(f, dict(kind="d1", n=n, seed=seed, mode="whole", connect=list(order)))
                    res["executions"] += 1
            for how in ("property-reenabled", "client-asks-again"):
                for n in (4, 900):
                    f = []
                    d1_element_added_later(n, seed, how, f)
                    absorb(f, dict(kind="added", n=n, seed=seed, how=how))
                    res["executions"] += 1
            for first in ("scoped-Also", "device-wide-then-scoped-Never"):
                f = []
                d2_property_scoped_policy(50, seed, first, f)
                absorb(f, dict(kind="scoped", n=50, seed=seed, first=first))
                res["executions"] += 1
            for damage in DAMAGED:
                for n in (5, 700):
                    f = []
                    d2_after_damaged_upload(n, seed, damage, f)
                    absorb(f, dict(kind="damaged", n=n, seed=seed, damage=damage))
                    res["executions"] += 1
            for seq in (("Also", "Never", "Only"), ("Only", "Also", "Never"), ("Also", "Also", "Never")):
                f = []
                d2_policy_sequence(1500, seed, list(seq), f)
                absorb(f, dict(kind="polseq", n=1500, seed=seed, seq=list(seq)))
                res["executions"] += 1
            for n in (70000, 140001):
                f = []
                d2_large_paused(n, seed, f)
                absorb(f, dict(kind="largepaused", n=n, seed=seed))
                res["executions"] += 1
            for n in (0, 1, 300, 1024, 2000):
                f = []
                d1_reuse(n, seed, f)
                absorb(f, dict(kind="reuse", n=n, seed=seed))
                res["executions"] += 1
        res["counters"]["lengths"] = hi - lo + 1
        if lo == 0:
            res["samples"].append({"length": 1025, "format": FORMATS[1025 % len(FORMATS)], "directions": ["driver->Client(BLOB connection)", "driver->raw(policy)", "client->driver"], "delivery": ["whole", "byte (every 16th length)"]})
    elif what == "partial":
        i, n_sh = shard[3], shard[4]
        sizes = [0, 1, 100, 700, 1024, 1500, 3000] if tier == "quick" else [0, 1, 2, 100, 700, 767, 1023, 1024, 1025, 1500, 2047, 3000, 6000]
        fr = [k / 8.0 for k in range(1, 8)] if tier == "quick" else [k / 24.0 for k in range(1, 24)]
        k = 0
        for n in sizes:
            for cf in fr:
                if k % n_sh == i:
                    f = []
                    partial_case(n, seed, cf, f)
                    absorb(f, dict(kind="partial", n=n, seed=seed, cf=cf))
                    res["executions"] += 1
                k += 1
    elif what == "graph":
        i, n_sh = shard[3], shard[4]
        sizes = [0, 1, 2, 3, 30, 90] if tier == "quick" else [0, 1, 2, 3, 4, 5, 30, 57, 90, 150, 200, 260]
        for k, n in enumerate(sizes):
            if k % n_sh == i:
                f = []
                graph_case(n, seed, res, f)
                absorb(f, dict(kind="graph", n=n, seed=seed))
    else:
        n = shard[3]
        f = []
        d1_driver_to_client(n, seed, "whole", f, "delivery=whole,large")
        absorb(f, dict(kind="d1", n=n, seed=seed, mode="whole"))
        f = []
        d3_client_to_driver(n, seed, "whole", f, "delivery=whole,large")
        absorb(f, dict(kind="d3", n=n, seed=seed, mode="whole"))
        res["executions"] += 2
        res["counters"]["large"] = 1


def finish(tier, seed, m):
    cov = {
        "states": m["states"],
        "transitions": m["transitions"],
        "traces_validated_against_impl": m["executions"],
        "end_to_end_executions": m["executions"],
        "payload_lengths_swept": m["counters"].get("lengths", 0),
        "large_payloads": m["counters"].get("large", 0),
        "samples": m["samples"][:1],
        "exhaustive": True,
        "explanation": "every payload length of the sweep range in three directions end to end (states = executions + Buffer graph states); all-partitions graphs for short BLOB messages; partial-delivery cuts as stated",
    }
    cov["_vacuity_errors"] = [] if m["counters"].get("lengths", 0) >= 1000 else ["sweep covered fewer than 1000 lengths"]
    return cov


def replay(rep):
    from mc.core.e2e import HandshakeFailed

    try:
        return _replay(rep)
    except HandshakeFailed as e:
        return [{"clause": "handshake-failed", "disc": "client-start", "what": str(e)}]


def _replay(rep):
    f = []
    k = rep["kind"]
    res = {"states": 0, "transitions": 0}
    if k == "d1":
        d1_driver_to_client(rep["n"], rep["seed"], rep["mode"], f, "delivery=%s" % rep["mode"] + (",connect=%s-first" % rep["connect"][0] if rep.get("connect") else ""), connect=rep.get("connect"))
    elif k == "d2":
        d2_driver_to_raw(rep["n"], rep["seed"], rep["policy"], "whole", f, "delivery=whole")
    elif k == "d3":
        d3_client_to_driver(rep["n"], rep["seed"], rep["mode"], f, "delivery=%s" % rep["mode"])
    elif k == "polseq":
        d2_policy_sequence(rep["n"], rep["seed"], rep["seq"], f)
    elif k == "largepaused":
        d2_large_paused(rep["n"], rep["seed"], f)
    elif k == "added":
        d1_element_added_later(rep["n"], rep["seed"], rep["how"], f)
    elif k == "scoped":
        d2_property_scoped_policy(rep["n"], rep["seed"], rep["first"], f)
    elif k == "damaged":
        d2_after_damaged_upload(rep["n"], rep["seed"], rep["damage"], f)
    elif k == "reuse":
        d1_reuse(rep["n"], rep["seed"], f)
    elif k == "partial":
        partial_case(rep["n"], rep["seed"], rep["cf"], f)
    else:
        graph_case(rep["n"], rep["seed"], res, f)
    return [{"clause": c, "disc": d, "what": w} for c, d, w in f]
