"""C07 - getProperties is answered with exactly the definitions asked for.

Explicit-state model checking over generated deployments: for every deployment of the family
the driver states reachable by histories of depth <= 3 (thorough 4) over the driver-side
alphabet (value / state / vector, group and element enabling / BLOB set and unset) are
enumerated (merged by the complete truth snapshot); in EVERY state every request
(device in {each device, none, unknown} x name in {none, each vector, unknown}) is routed and
the answers compared with the driver model.  Every message emitted anywhere (definitions,
updates, deletions) is serialised, re-parsed by the library's parser and compared.
"""
import itertools

from mc.gen import deploy as DP
from mc.ref import driver_model as DM
from mc.ref import xmlview as X

LEVEL = "model_checking"
ASSUMPTIONS = [
    "deployments are those of mc.gen.deploy.family (8 vector variants x enabled flags x inheritance depth 1..3 x 1..3 devices with colliding names)",
    "a delProperty sent for a disabled property in answer to getProperties is tolerated (it is not a definition)",
    "number texts are judged numerically within the format's resolution (rendering itself is C10)",
]


def family(tier):
    """the shared deployment family plus deployments with the library's Proxy driver next to the generated drivers:
    it accepts every device name (to forward traffic upstream) but must define only its own property, and only when
    it is addressed itself or nobody is"""
    fam = list(DP.family(tier))
    for variant, ndev in (("text", 1), ("switch-OneOfMany", 2), ("blob", 2)):
        fam.append(dict(variant=variant, vec_enabled=True, grp_enabled=True, depth=1, ndev=ndev, ngroups=2, proxy=True))
    # a driver class that names its device at class level, instantiated with a different constructor label: the device
    # is the one its definitions announce (the class-level name) - for addressing too
    for variant, ndev in (("text", 2), ("number-printf", 1)):
        fam.append(dict(variant=variant, vec_enabled=True, grp_enabled=True, depth=1, ndev=ndev, ngroups=2, ctor_name="LABEL"))
    return fam


def shards(tier, seed):
    fam = family(tier)
    return [(tier, i) for i in range(len(fam))]


class Sys:
    def __init__(self, p):
        import indi.message as M
        from indi.routing import Client, Router

        from mc.gen import drivers as D

        self.specs = DP.deployment(**{k: v for k, v in p.items() if k not in ("proxy", "ctor_name")})
        hk = p["variant"].split("-")[0] if p.get("read_refresh") else None
        M_now = M.now
        self._M = M
        self._saved = M_now
        M.now = lambda: "2024-01-01T00:00:00"
        self.router = Router()
        self.devs = []
        classes, alldefs = [], []
        for s in self.specs:
            bi = s.get("derive_from")
            hf = DM.read_refresh_handlers(hk) if (hk and s is self.specs[0]) else None
            cls, defs = D.build_class(s, handlers=hf, handlers_level=0 if hf else None, base_cls=classes[bi] if bi is not None else None, base_defs=alldefs[bi] if bi is not None else None)
            classes.append(cls)
            alldefs.append(defs)
            if p.get("ctor_name") and s is self.specs[0]:
                self.devs.append(cls(name=p["ctor_name"], router=self.router))
            else:
                self.devs.append(cls(router=self.router))
        self.proxy = None
        if p.get("proxy"):
            from indi.device.proxy import Proxy

            self.proxy = type("PX", (Proxy,), {"name": "PX", "address": "127.0.0.1"})(router=self.router)
        self.log = []
        outer = self

        class Rec(Client):
            def message_from_device(self, message):
                outer.log.append(message)

        # operation-history model of the enabled flags (the live .enabled attributes are checked against it)
        self.flags = {"vec": p.get("vec_enabled", True), "grp": p.get("grp_enabled", True), "by": True, "el": {}}
        self.client = Rec()
        self.router.register_client(self.client)
        for s in self.specs:
            self.router.process_message(M.EnableBLOB(device=s["name"], value="Also"), sender=self.client)

    def close(self):
        self._M.now = self._saved

    def truth(self):
        return [DM.truth(s, d) for s, d in zip(self.specs, self.devs)]

    def canon(self):
        out = []
        for t in self.truth():
            out.append(tuple((n, v["enabled"], v["state"], tuple((en, repr(e["value"]), e["enabled"]) for en, e in v["elements"].items())) for n, v in t.items()))
        return tuple(out)

    def apply(self, op):
        from indi.device.values import BLOB

        self.log.clear()
        dev, spec = self.devs[0], self.specs[0]
        g1 = DM.live_group(dev, spec["groups"][0])
        vec = g1.vectors["t"]
        kind = spec["groups"][0]["vectors"][0]["kind"]
        o = op[0]
        if o == "value":
            el = getattr(vec, op[1])
            el.value = value_of(kind, spec, op[2])
        elif o == "state":
            vec.state_ = op[1]
        elif o == "vec-enabled":
            vec.enabled = op[1]
            self.flags["vec"] = op[1]
        elif o == "grp-enabled":
            g1.enabled = op[1]
            self.flags["grp"] = op[1]
        elif o == "el-enabled":
            getattr(vec, op[1]).enabled = op[2]
            self.flags["el"][op[1]] = op[2]
        elif o == "by-enabled":
            g2 = DM.live_group(dev, spec["groups"][1])
            g2.vectors["o"].enabled = op[1]
            self.flags["by"] = op[1]
        elif o == "unset":
            getattr(vec, op[1]).value = None
        return list(self.log)

    def request(self, device, name):
        import indi.message as M

        self.log.clear()
        self.router.process_message(M.GetProperties(version="1.7", device=device, name=name), sender=self.client)
        return list(self.log)


def value_of(kind, spec, which):
    from indi.device.values import BLOB

    if kind == "text":
        return ("v1", "<&>\"q'", "")[which]
    if kind == "number":
        return (12.5, -0.5, 359.99999)[which]
    if kind == "switch":
        return ("On", "Off", "On")[which]
    if kind == "light":
        return ("Alert", "Idle", "Busy")[which]
    return (BLOB(b"abc", ".x"), BLOB(bytes(range(256)), ".bin"), BLOB(b"", ".e"))[which]


def ops(spec):
    kind = spec["groups"][0]["vectors"][0]["kind"]
    out = []
    for w in (0, 1, 2):
        out.append(("value", "a", w))
    out.append(("value", "b", 0))
    out += [("state", "Busy"), ("state", "Alert"), ("vec-enabled", False), ("vec-enabled", True), ("grp-enabled", False), ("grp-enabled", True), ("el-enabled", "b", False), ("el-enabled", "b", True), ("by-enabled", False)]
    # every element of the property can be disabled: an enabled property none of whose elements is enabled is still
    # defined (with an empty element list)
    out += [("el-enabled", "a", False)]
    if kind == "switch":
        out += [("el-enabled", "c", False)]
    if kind == "blob":
        out.append(("unset", "a"))
    return out


def reparse_check(msgs, viol, rep):
    import indi.message as M

    for m in msgs:
        kindname = type(m).__name__
        try:
            data = m.to_string()
        except Exception as e:
            from mc import lib

            viol("emitted-unserialisable", "msg=%s,%s" % (kindname, lib.exc_site(e)), repr(e), rep)
            continue
        try:
            back = M.IndiMessage.from_string(data)
        except Exception as e:
            why = type(e).__name__
            txt = data.decode("latin1")
            detail = ""
            if kindname == "DefNumberVector" and (' min="' not in txt or ' max="' not in txt):
                detail = ",defNumber-without-min-max"
            if kindname == "SetBLOBVector" and "size=" not in txt:
                detail = ",oneBLOB-without-size-format"
            viol("own-parser-rejects", "msg=%s%s,%s" % (kindname, detail, why), "%r: %r" % (data, e), rep)
            continue
        try:
            v1, v2, v3 = X.view_of_msg(m), X.view_of_msg(back), X.view_of_xml(data)
        except Exception as e:
            viol("unviewable", "msg=%s" % kindname, repr(e), rep)
            continue
        if v2 != v3 or v1 != v2:
            viol("reparse-differs", "msg=%s" % kindname, "emitted %r, bytes %r, parsed %r" % (v1, v3, v2), rep)


def check_state(sysm, p, path, res, viol):
    specs = sysm.specs
    # one request BEFORE anything in the harness has read the driver's values: reading .value raises the Read event,
    # so a definition must do that itself (a Read handler refreshes the element "from the hardware")
    first = None
    try:
        first = sysm.request(specs[0]["name"], "TGT")
    except Exception:
        first = None  # reported by the request loop below
    try:
        truths = sysm.truth()
    except DM.Missing as e:
        viol("declared-group-lost", "depth=%d" % p["depth"], str(e), {"p": p, "path": path, "req": None})
        return False
    names = [s["name"] for s in specs]
    vnames = sorted({vn for t in truths for vn in t})
    for m in first or ():
        if type(m).__name__.startswith("Def") and m.name == "TGT":
            try:
                probs = DM.check_def_view(X.view_of_xml(m.to_string()), m.device, truths[0]["TGT"])
            except Exception:
                probs = []
            if probs:
                viol("definition-content", "kind=%s,first-request,%s" % (truths[0]["TGT"]["kind"], probs[0].split(" ")[0]), "first request after %r: %r" % (path, probs), {"p": p, "path": path, "req": [specs[0]["name"], "TGT"]})
    # the drivers' own .enabled attributes must agree with the history of enabling operations
    fl = sysm.flags
    for vn, want in (("TGT", fl["vec"] and fl["grp"]), ("OTHER", fl["by"])):
        if vn in truths[0] and truths[0][vn]["enabled"] != want:
            viol("enabled-flag", "vector=%s" % ("target" if vn == "TGT" else "bystander"), "after %r: DEV0/%s.enabled is %r, the operations performed imply %r" % (path, vn, truths[0][vn]["enabled"], want), {"p": p, "path": path, "req": None})
    for ea, want in fl["el"].items():
        en = ea.upper()
        if truths[0]["TGT"]["elements"][en]["enabled"] != want:
            viol("enabled-flag", "element", "after %r: element %s enabled=%r, expected %r" % (path, en, truths[0]["TGT"]["elements"][en]["enabled"], want), {"p": p, "path": path, "req": None})
    for di in range(1, len(truths)):
        for vn, tv in truths[di].items():
            if not tv["enabled"]:
                viol("enabled-flag", "other-device", "after %r: DEV%d/%s became disabled" % (path, di, vn), {"p": p, "path": path, "req": None})
            for en, e in tv["elements"].items():
                if not e["enabled"]:
                    # no operation touches another device's elements (declarations may be shared between driver classes
                    # and instances: flags must not be)
                    viol("enabled-flag", "other-device,element", "after %r: DEV%d/%s.%s became disabled" % (path, di, vn, en), {"p": p, "path": path, "req": None})
    for device in names + [None, "NOPE", "LABEL"] + (["PX"] if sysm.proxy is not None else []):
        for name in [None] + vnames + ["NOPE"] + (["CONNECTION"] if sysm.proxy is not None else []):
            rep = {"p": p, "path": path, "req": [device, name]}
            try:
                msgs = sysm.request(device, name)
            except Exception as e:  # noqa
                from mc import lib

                viol("request-raises", "req=%s,%s" % (reqclass(device, name), lib.exc_site(e)), "request (%r,%r): %r" % (device, name, e), rep)
                continue
            res["transitions"] += 1
            reparse_check(msgs, viol, rep)
            want = []
            for dn, t in zip(names, truths):
                if device is not None and device != dn:
                    continue
                for vn, tv in t.items():
                    if name is not None and vn != name:
                        continue
                    if tv["enabled"]:
                        want.append((dn, vn))
            if sysm.proxy is not None and device in (None, "PX") and name in (None, "CONNECTION"):
                want.append(("PX", "CONNECTION"))
            got = []
            for m in msgs:
                tn = type(m).__name__
                if tn.startswith("Def"):
                    got.append((m.device, m.name))
                elif tn == "DelProperty":
                    # tolerated only for a disabled property of an addressed device
                    t = dict(zip(names, truths)).get(m.device)
                    ok = t is not None and m.name in t and not t[m.name]["enabled"] and (device in (None, m.device)) and (name in (None, m.name))
                    if not ok:
                        viol("stray-delProperty", "req=%s" % reqclass(device, name), "request (%r,%r) answered with delProperty %r/%r" % (device, name, m.device, m.name), rep)
                else:
                    viol("stray-answer", "msg=%s" % tn, "request (%r,%r) answered with %s" % (device, name, tn), rep)
            if sorted(got) != sorted(want):
                extra = [g for g in got if g not in want]
                missing = [w for w in want if w not in got]
                why = "duplicate" if len(set(got)) != len(got) else ("extra" if extra else "missing")
                viol("definitions-set", "req=%s,%s" % (reqclass(device, name), why), "request (%r,%r): definitions %r, expected %r" % (device, name, got, want), rep)
                continue
            res["counters"]["defs"] = res["counters"].get("defs", 0) + len(got)
            for m in msgs:
                if type(m).__name__.startswith("Def") and m.device != "PX":
                    t = dict(zip(names, truths))[m.device][m.name]
                    try:
                        view = X.view_of_xml(m.to_string())
                    except Exception:
                        continue
                    probs = DM.check_def_view(view, m.device, t)
                    if probs:
                        viol("definition-content", "kind=%s,%s" % (t["kind"], probs[0].split(" ")[0] + "-" + probs[0].split(" ")[1] if probs[0].startswith("element") else probs[0].split(" ")[0]), "request (%r,%r): %s: %r" % (device, name, m.name, probs), rep)
    return True


def reqclass(device, name):
    return "%s/%s" % ("none" if device is None else ("unknown" if device == "NOPE" else "device"), "none" if name is None else ("unknown" if name == "NOPE" else "named"))


def run_shard(shard):
    tier, i = shard
    p = family(tier)[i]
    depth = 3 if tier == "quick" else 4
    res = {"states": 0, "transitions": 0, "violations": [], "samples": [], "counters": {}}
    sig = {}

    def viol(clause, disc, what, rep):
        key = (clause, disc)
        if key in sig:
            sig[key]["count"] += 1
        else:
            sig[key] = {"clause": clause, "disc": disc, "what": "%r: %s" % (p, what), "count": 1, "replay": rep}

    from collections import deque

    s0 = Sys(p)
    try:
        try:
            init = s0.canon()
        except DM.Missing as e:
            viol("declared-group-lost", "depth=%d" % p["depth"], str(e), {"p": p, "path": [], "req": None})
            res["violations"] = list(sig.values())
            res["states"] = 1
            return res
        allops = ops(s0.specs[0])
    finally:
        s0.close()
    seen = {init: ()}
    fr = deque([init])
    while fr:
        st = fr.popleft()
        path = seen[st]
        sysm = Sys(p)
        try:
            for op in path:
                sysm.apply(op)
            res["states"] += 1
            check_state(sysm, p, list(path), res, viol)
        finally:
            sysm.close()
        if path:
            # the same state reached WITH requests between the operations (a driver that remembers anything about
            # earlier answers - cached definitions - must still answer from its current state)
            sysm = Sys(p)
            try:
                sysm.request(None, None)
                for op in path:
                    sysm.apply(op)
                    sysm.request(None, None)
                    sysm.request(sysm.specs[0]["name"], "TGT")
                res["counters"]["primed_states"] = res["counters"].get("primed_states", 0) + 1
                check_state(sysm, p, list(path) + ["@primed"], res, viol)
            except Exception as e:  # noqa
                from mc import lib

                viol("request-raises", "primed-history,%s" % lib.exc_site(e), "requests between the operations %r: %r" % (path, e), {"p": p, "path": list(path) + ["@primed"], "req": None})
            finally:
                sysm.close()
        if len(path) >= depth:
            continue
        for op in allops:
            sysm = Sys(p)
            try:
                for o in path:
                    sysm.apply(o)
                try:
                    emitted = sysm.apply(op)
                except Exception as e:
                    from mc import lib

                    viol("op-raises", "op=%s,%s" % (op[0], lib.exc_site(e)), "%r after %r: %r" % (op, path, e), {"p": p, "path": list(path) + [op], "req": None})
                    continue
                res["transitions"] += 1
                reparse_check(emitted, viol, {"p": p, "path": list(path) + [op], "req": None})
                res["counters"]["emitted"] = res["counters"].get("emitted", 0) + len(emitted)
                c = sysm.canon()
                if c not in seen:
                    seen[c] = path + (op,)
                    fr.append(c)
            finally:
                sysm.close()
    res["violations"] = list(sig.values())
    if i == 0:
        res["samples"].append({"deployment": p, "ops": [list(o) for o in allops[:5]], "requests": [["DEV0", None], [None, "TGT"], ["NOPE", None]]})
    return res


def finish(tier, seed, m):
    cov = {
        "states": m["states"],
        "transitions": m["transitions"],
        "traces_validated_against_impl": m["transitions"],
        "deployments": len(family(tier)),
        "definitions_checked": m["counters"].get("defs", 0),
        "emitted_messages_reparsed": m["counters"].get("emitted", 0),
        "samples": m["samples"][:1],
        "exhaustive": True,
        "explanation": "per deployment: all driver states within the history depth (merged by truth snapshot), every request in every state; transitions = requests + driver operations executed on the real drivers",
    }
    cov["_vacuity_errors"] = [] if m["counters"].get("defs", 0) > 1000 else ["few definitions checked"]
    return cov


def _t(x):
    if isinstance(x, list):
        return tuple(_t(i) for i in x)
    return x


def replay(rep):
    p = rep["p"]
    out = []

    def viol(clause, disc, what, r):
        out.append({"clause": clause, "disc": disc, "what": what})

    res = {"transitions": 0, "counters": {}}
    sysm = Sys(p)
    try:
        path = [_t(o) for o in rep["path"]]
        primed = bool(path) and path[-1] == "@primed"
        if primed:
            path = path[:-1]
            sysm.request(None, None)
        try:
            sysm.canon()
        except DM.Missing as e:
            return [{"clause": "declared-group-lost", "disc": "depth=%d" % p["depth"], "what": str(e)}]
        for k, op in enumerate(path):
            try:
                em = sysm.apply(op)
            except Exception as e:
                from mc import lib

                return [{"clause": "op-raises", "disc": "op=%s,%s" % (op[0], lib.exc_site(e)), "what": repr(e)}]
            if primed:
                sysm.request(None, None)
                sysm.request(sysm.specs[0]["name"], "TGT")
            if k == len(path) - 1 and rep["req"] is None and not primed:
                reparse_check(em, viol, None)
        if rep["req"] is not None or not path or primed:
            check_state(sysm, p, path, res, viol)
    finally:
        sysm.close()
    return out
