"""C06 - a client's write changes exactly the addressed element, to the value sent.

Bounded-exhaustive / schedule exploration on the end-to-end world (real Client -> serialiser
-> wire -> real server ConnectionHandler -> framing -> Router -> real Driver): for every
deployment with colliding vector and element names, every (device, property, non-empty
element subset) target x every value of the per-kind alphabet x cut sets of the wire stream,
all elements of all devices are snapshotted before and after.
"""
import itertools

from mc.gen import deploy as DP
from mc.ref import driver_model as DM
from mc.ref import indi_numbers as N

LEVEL = "model_checking"
ASSUMPTIONS = [
    "I-7: the empty string is not in the text alphabet; I-11: permissions / enabled flags are not enforced on writes and not judged",
    "cut sets: whole, byte-by-byte, 7-byte chunks, and every single cut position (quick: every 5th) of the client->server stream; C02 decides full fragmentation independence of framing",
    "numbers compared numerically (|driver value - denoted value| <= 1e-9)",
]
SHARD_LIMIT = {"quick": 900, "thorough": 7200}

TEXTS = ["new", "<&>\"q'", "\xe9√", "a\nb", "x]]>y", "On"]
NUMS = ["7", "7.25", "-2.5", "1:30", "1;30", "1 30", "-0:30:00", "12:30:36", 3.5, ".5", "1:02:03.05", "-20:00:00.07", "-16777215", "2400000.5", 1.5e-07, -2.5e-05]  # exactly the declared limits of element A; the last two: Python floats whose repr has an exponent
# number properties in every format family (the client's view shows what the DEVICE renders with its format)
MORE_NUMBER_VARIANTS = ("number-sexa3", "number-sexa5", "number-sexa8", "number-sexa9", "number-g", "number-d")
BLOB_SIZES = [0, 1, 3, 255, 256, 1023, 1024, 1025]


def blob_bytes(n, seed):
    if n == 256:
        return bytes(range(256))
    return bytes(((i * 7 + seed) % 256) for i in range(n))


def values_for(kind, tier):
    if kind == "text":
        return TEXTS
    if kind == "number":
        return NUMS
    if kind == "switch":
        return ["On", "Off"]
    if kind == "blob":
        return [("blob", n) for n in (BLOB_SIZES if tier == "thorough" else [0, 3, 256, 1024])]
    return []


def shards(tier, seed):
    sh = []
    for variant in DP.VARIANTS:
        if variant == "light":
            continue
        for ndev in (2, 3):
            for depth in (1, 2) if tier == "thorough" else (1,):
                sh.append((tier, seed, variant, ndev, depth))
    for variant in MORE_NUMBER_VARIANTS:
        sh.append((tier, seed, variant, 2, 1))
    # write-only properties are written like read-write ones
    for variant in ("text", "number-printf", "switch-AtMostOne", "blob"):
        sh.append((tier, seed, variant, 2, 1, "wo"))
    return sh


def snapshot(world):
    out = []
    for spec, dev in zip(world.specs, world.devices):
        t = DM.truth(spec, dev)
        out.append({vn: {en: e["value"] for en, e in tv["elements"].items()} for vn, tv in t.items()})
    return out


def switch_model(rule, cur, writes):
    """cur: dict name->'On'/'Off' (ordered); writes: list of (name, value) applied in order"""
    cur = dict(cur)
    for n, v in writes:
        if v == "On":
            if rule in ("OneOfMany", "AtMostOne"):
                for k in cur:
                    if k != n:
                        cur[k] = "Off"
            cur[n] = "On"
        else:
            if rule == "OneOfMany" and not any(val == "On" for k, val in cur.items() if k != n):
                cur[n] = "On"
            else:
                cur[n] = "Off"
    return cur


def execute(p, target, assignment, mode, seed=0):
    """p: deployment params; target: (device index, vector attr name 'TGT'/'OTHER');
    assignment: list of (element name, value); mode: 'whole' | 'byte' | 'chunk:7' | ('cut', k)"""
    from indi.device.values import BLOB

    from mc.core import e2e
    from mc.props.client_common import elval

    specs = DP.deployment(**p)
    w = e2e.World(specs)
    obs = {}
    try:
        c = w.make_client()
        before = snapshot(w)
        di, vname = target
        dname = specs[di]["name"]
        cvec = c[dname][vname]
        for en, v in assignment:
            if isinstance(v, tuple) and v[0] == "blob":
                v = BLOB(blob_bytes(v[1], seed), ".b%d" % v[1])
            cvec[en].value = v
        link = w.links[0]
        base = link.c2s.delivered + len(link.c2s.pending)
        if mode in ("whole", "byte") or (isinstance(mode, str) and mode.startswith("chunk")):
            w.delivery = mode
        else:
            w.cuts = {link.c2s.name: [base + mode[1]]}
        exc = None
        try:
            cvec.submit()
        except Exception as e:  # noqa
            exc = e
        w.settle()
        obs["exc"] = exc
        obs["seed"] = seed
        obs["sent_bytes"] = link.c2s.delivered - base
        obs["before"] = before
        obs["after"] = snapshot(w)
        obs["server_tasks_done"] = [l.server_task.done() for l in w.links]
        obs["client_view"] = {en: elval(cvec[en]) for en in cvec.list_elements()}
        obs["pending_new"] = [en for en in cvec.list_elements() if cvec[en].has_new_value]
        obs["errors"] = [e.get("message") for e in w.loop.collect_errors()]
    finally:
        w.close()
    return obs


def execute_seq(p, steps):
    """a short history on ONE client vector object: steps = [("cwrite", el, v) | ("dassign", el, v)];
    returns the final driver values of the target vector, the client view, and pending flags"""
    from mc.core import e2e
    from mc.props.client_common import elval

    specs = DP.deployment(**p)
    w = e2e.World(specs)
    try:
        c = w.make_client()
        cvec = c["DEV0"]["TGT"]
        dvec = DM.live_vector(w.devices[0], specs[0]["groups"][0], specs[0]["groups"][0]["vectors"][0])
        before_other = snapshot(w)
        peer = None
        for op, el, v in steps:
            if op == "cwrite":
                cvec[el].value = v
                cvec.submit()
            elif op == "peer-raw":
                # another connection sends the property a request (raw bytes; typically one the device must refuse)
                if peer is None:
                    peer = w.new_link("peer")
                    w.settle()
                peer.client_ep.writer.write(v.encode("utf-8"))
            else:
                getattr(dvec, el.lower()).value = v
            w.settle()
        after = snapshot(w)
        return dict(fmt={e["name"]: e.get("format", "%f") for e in specs[0]["groups"][0]["vectors"][0]["elements"]}, values=after[0]["TGT"], others_same=all(a[vn] == b[vn] for a, b in zip(after, before_other) for vn in a if not (a is after[0] and vn == "TGT")), view={en: elval(cvec[en]) for en in cvec.list_elements()}, errors=[e.get("message") for e in w.loop.collect_errors()])
    finally:
        w.close()


def seq_cases(variant):
    kind = variant.split("-")[0]
    if kind == "text":
        return [[("cwrite", "A", "one"), ("dassign", "A", "two"), ("cwrite", "B", "three")], [("cwrite", "B", "b1"), ("cwrite", "A", "a1"), ("dassign", "B", "b2"), ("cwrite", "A", "a2")]], {"A": ["two", "a2"], "B": ["three", "b2"]}
    if kind == "number":
        return [[("cwrite", "A", "7"), ("dassign", "A", 9.0), ("cwrite", "B", "3")], [("cwrite", "B", "1.5"), ("cwrite", "A", "2.5"), ("dassign", "B", 4.0), ("cwrite", "A", "5")]], {"A": [9.0, 5.0], "B": [3.0, 4.0]}
    if variant == "switch-AnyOfMany":
        return [[("cwrite", "B", "On"), ("dassign", "B", "Off"), ("cwrite", "C", "On")]], {"A": ["On"], "B": ["Off"], "C": ["On"]}
    if variant in ("switch-OneOfMany", "switch-AtMostOne"):
        # selecting B, then C: re-sending the earlier B=On after C=On would select B again
        return [[("cwrite", "C", "On"), ("cwrite", "B", "On")], [("cwrite", "B", "On"), ("cwrite", "C", "On")]], None
    return [], None


REFUSED = {
    # requests a device of that kind cannot apply (as a whole or for one member), sent by ANOTHER connection earlier on
    "number": ['<oneNumber name="B"></oneNumber>', '<oneNumber name="B">abc</oneNumber>', '<oneNumber name="B">1%s</oneNumber>' % ("0" * 400), '<oneNumber name="A">1</oneNumber><oneNumber name="B"></oneNumber>', '<oneNumber name="B">1:2:3:4</oneNumber>'],
    "switch": ['<oneSwitch name="B">Maybe</oneSwitch>', '<oneSwitch name="B"></oneSwitch>', '<oneSwitch name="A">On</oneSwitch><oneSwitch name="B">on</oneSwitch>'],
    "text": ['<oneText>no name</oneText>', '<oneNumber name="A">1</oneNumber>'],
}


def refused_histories(variant):
    """[(steps, written element, value)]: 1..3 refused requests of a peer, then an ordinary write of the client"""
    kind = variant.split("-")[0]
    tag = {"number": "Number", "switch": "Switch", "text": "Text"}.get(kind)
    if tag is None:
        return []
    out = []
    val = {"number": "5.5", "switch": "On", "text": "after"}[kind]
    el = "C" if kind == "switch" else "A"
    for body in REFUSED[kind]:
        raw = '<new%sVector device="DEV0" name="TGT">%s</new%sVector>' % (tag, body, tag)
        for times in (1, 3):
            out.append(([("peer-raw", None, raw)] * times + [("cwrite", el, val)], el, val))
    return out


def judge_refused(p0, hist):
    steps, el, val = hist
    variant = p0["variant"]
    kind = variant.split("-")[0]
    o = execute_seq(p0, steps)
    d = "kind=%s,after-refused-request" % variant
    f = []
    got = o["values"].get(el)
    want = float(N.denotes(val)) if kind == "number" else val
    okd = abs(got - want) <= 1e-9 if kind == "number" and isinstance(got, (int, float)) else got == want
    if not okd:
        f.append(("target-value", d, "history %r: driver has %s=%r, expected %r" % (_sh(steps), el, got, want)))
    else:
        cv = o["view"].get(el)
        okc = DM.number_matches(cv, want, o["fmt"][el]) if kind == "number" else cv == want
        if not okc:
            f.append(("client-view-stale", d, "history %r: client shows %s=%r, driver has %r" % (_sh(steps), el, cv, got)))
    if not o["others_same"]:
        f.append(("other-property-changed", d, "history %r changed another property" % (_sh(steps),)))
    return f


def _sh(steps):
    return [(a, b, c if len(str(c)) < 90 else str(c)[:60] + "...") for a, b, c in steps]


def back_to_back(p0):
    """writes to the SAME-NAMED property of two devices submitted back to back, so that both messages reach the
    server in one read and both updates are queued for the writer together: both views must show the new values"""
    from mc.core import e2e
    from mc.props.client_common import elval

    variant = p0["variant"]
    kind = variant.split("-")[0]
    vals = {"text": ("alpha", "beta"), "number": ("7", "9.5"), "switch": ("On", "On")}.get(kind)
    if vals is None or p0["ndev"] < 2:
        return []
    el = "B" if kind == "switch" else "A"
    specs = DP.deployment(**p0)
    w = e2e.World(specs)
    f = []
    try:
        c = w.make_client()
        for dn, v in zip(("DEV0", "DEV1"), vals):
            c[dn]["TGT"][el].value = v
            c[dn]["TGT"].submit()
        w.settle()
        after = snapshot(w)
        for di, (dn, v) in enumerate(zip(("DEV0", "DEV1"), vals)):
            dv = after[di]["TGT"][el]
            want = float(N.denotes(v)) if kind == "number" else v
            okd = abs(dv - want) <= 1e-9 if kind == "number" else dv == want
            cv = elval(c[dn]["TGT"][el])
            okc = DM.number_matches(cv, want, next(x for x in specs[di]["groups"][0]["vectors"][0]["elements"] if x["name"] == el).get("format", "%f")) if kind == "number" else cv == want
            if not okd:
                f.append(("target-value", "kind=%s,back-to-back" % variant, "%s.TGT.%s: driver has %r, expected %r" % (dn, el, dv, want)))
            elif not okc:
                f.append(("client-view-stale", "kind=%s,back-to-back" % variant, "%s.TGT.%s: client shows %r, driver has %r" % (dn, el, cv, dv)))
    finally:
        w.close()
    return f


def judge_seq(p0, si):
    variant = p0["variant"]
    seqs, want = seq_cases(variant)
    steps = seqs[si]
    o = execute_seq(p0, steps)
    f = []
    d = "kind=%s,history" % variant
    if want is not None:
        for en, vals in want.items():
            got = o["values"][en]
            w_ = vals[si]
            ok = (abs(got - w_) <= 1e-9) if isinstance(w_, float) else got == w_
            if not ok:
                f.append(("later-write-disturbed-earlier-element", d, "history %r: %s = %r, expected %r" % (steps, en, got, w_)))
    else:
        last = steps[-1][1]
        on = [en for en, v in o["values"].items() if v == "On"]
        if on != [last]:
            f.append(("later-write-disturbed-earlier-element", d, "history %r: switches On %r, expected [%r]" % (steps, on, last)))
    if not o["others_same"]:
        f.append(("other-property-changed", d, "history %r changed another property" % (steps,)))
    return f


def judge(p, target, assignment, obs):
    fails = []
    specs = DP.deployment(**p)
    di, vname = target
    vspec = next(v for g in specs[di]["groups"] for v in g["vectors"] if v["name"] == vname)
    kind = vspec["kind"]
    d = "kind=%s" % (kind if kind != "switch" else "switch-" + vspec.get("rule", "OneOfMany"))
    if obs.get("sent_bytes", 0) - 22 > 2048:
        # the serialised write (without the XML declaration) is longer than the server connection's junk-recovery
        # threshold: known finding KF-1 (first found by C08) applies to it, whatever the element kind
        d += ",upload-message>2048"
    if obs["exc"] is not None:
        from mc import lib

        return [("submit-raises", d + "," + lib.exc_site(obs["exc"]), repr(obs["exc"]))]
    if any(obs["server_tasks_done"]):
        fails.append(("server-connection-ended", d, "a server connection handler ended during the write"))
    before, after = obs["before"], obs["after"]
    # expected new values of the target vector
    cur = before[di][vname]
    want = dict(cur)
    if kind == "switch":
        want = switch_model(vspec.get("rule", "OneOfMany"), cur, assignment)
    else:
        for en, v in assignment:
            if kind == "number":
                want[en] = float(N.denotes(str(v)))
            elif kind == "blob":
                want[en] = (blob_bytes(v[1], obs.get("seed", 0)), ".b%d" % v[1])
            else:
                want[en] = v
    for i, (b, a) in enumerate(zip(before, after)):
        for vn in b:
            exp = want if (i == di and vn == vname) else b[vn]
            for en in b[vn]:
                got = a[vn][en]
                e = exp[en]
                same = (abs(got - e) <= 1e-9) if (isinstance(e, float) and isinstance(got, (int, float))) else (got == e)
                if not same:
                    if i == di and vn == vname:
                        named = en in [n for n, _ in assignment]
                        fails.append(("target-value" if named else "unaddressed-element-changed", d, "device %d %s.%s: driver has %r, expected %r (assignment %r)" % (i, vn, en, got if not isinstance(got, tuple) else (len(got[0]), got[1]), e if not isinstance(e, tuple) else (len(e[0]), e[1]), short(assignment))))
                    else:
                        fails.append(("other-property-changed", d + (",other-device" if i != di else ",same-device"), "device %d %s.%s changed %r -> %r" % (i, vn, en, b[vn][en], got)))
    if not fails:
        # the client's own view shows the new values
        view = obs["client_view"]
        for en, e in want.items():
            cv = view.get(en)
            if kind == "number":
                fmt = next(x for x in vspec["elements"] if x["name"] == en).get("format", "%f")
                ok = DM.number_matches(cv, e, fmt)
            elif kind == "blob":
                ok = DM.blob_equiv(cv, e)
            else:
                ok = cv == e
            if not ok:
                fails.append(("client-view-stale", d, "client shows %s=%r, driver has %r" % (en, cv if not isinstance(cv, tuple) else (len(cv[0]), cv[1]), e if not isinstance(e, tuple) else (len(e[0]), e[1]))))
        if obs["pending_new"]:
            fails.append(("pending-not-cleared", d, "elements still pending after submit: %r" % obs["pending_new"]))
    if obs["errors"]:
        fails.append(("loop-error", d, repr(obs["errors"])[:300]))
    return fails


def short(assignment):
    return [tuple(x) for x in assignment]


def cases(tier, variant, ndev, depth, perm="rw"):
    p = dict(variant=variant, vec_enabled=True, grp_enabled=True, depth=depth, ndev=ndev, ngroups=2)
    if perm != "rw":
        p["perm"] = perm
    specs = DP.deployment(**p)
    kind = variant.split("-")[0]
    for di in range(ndev):
        tv = specs[di]["groups"][0]["vectors"][0]
        names = [e["name"] for e in tv["elements"]]
        vals = values_for(kind, tier)
        for r in range(1, len(names) + 1):
            for sub in itertools.combinations(names, r):
                if r == 1:
                    combos = [[(sub[0], v)] for v in vals]
                else:
                    # several elements: rotate values, and both orders matter only for switches (dict order is fixed by the client)
                    combos = [[(n, vals[(k + j) % len(vals)]) for j, n in enumerate(sub)] for k in range(min(len(vals), 3 if tier == "quick" else len(vals)))]
                    if kind == "switch":
                        combos = [list(zip(sub, vs)) for vs in itertools.product(("On", "Off"), repeat=r)]
                for assignment in combos:
                    yield p, (di, "TGT"), assignment
        # the bystander vector too (its names collide with the target's element names)
        if di == 0:
            ov = specs[0]["groups"][1]["vectors"][0]
            okind = ov["kind"]
            for v in values_for(okind, tier)[:2]:
                yield p, (0, "OTHER"), [("A", v)]


def modes(tier, nbytes_hint):
    yield "whole"
    yield "byte"
    yield "chunk:7"


def run_shard(shard):
    tier, seed, variant, ndev, depth = shard[:5]
    perm = shard[5] if len(shard) > 5 else "rw"
    res = {"states": 0, "transitions": 0, "executions": 0, "violations": [], "samples": [], "counters": {}}
    sig = {}

    def record(p, target, assignment, mode, fails):
        for clause, disc, what in fails:
            key = (clause, disc)
            if key in sig:
                sig[key]["count"] += 1
            else:
                sig[key] = {"clause": clause, "disc": disc, "count": 1, "what": "%r target %r mode %r: %s" % (p, target, mode, what), "replay": dict(p=p, target=target, assignment=short(assignment), mode=mode, seed=seed)}

    n = 0
    from mc.core.e2e import HandshakeFailed

    for p, target, assignment in cases(tier, variant, ndev, depth, perm):
        sent = None
        try:
            execute(p, target, assignment, "whole", seed)
        except HandshakeFailed as e:
            record(p, target, assignment, "whole", [("handshake-failed", "kind=%s" % variant, str(e))])
            break
        for mode in modes(tier, None):
            obs = execute(p, target, assignment, mode, seed)
            res["executions"] += 1
            res["transitions"] += 1
            sent = obs.get("sent_bytes") or sent
            record(p, target, assignment, mode, judge(p, target, assignment, obs))
        # every single cut position of the client->server bytes of this write
        if sent:
            step = 1 if tier == "thorough" and sent < 400 else (5 if sent < 400 else 61)
            if tier == "quick" and n % 3:
                step = 0
            if any(isinstance(v, str) and any(ord(ch) > 126 for ch in v) for _, v in assignment):
                step = 1  # non-ASCII text: every cut position (a cut may fall inside a multi-byte sequence)
            if step:
                for k in range(1, sent, step):
                    obs = execute(p, target, assignment, ("cut", k), seed)
                    res["executions"] += 1
                    res["transitions"] += 2
                    record(p, target, assignment, ("cut", k), judge(p, target, assignment, obs))
        n += 1
        res["counters"]["writes"] = res["counters"].get("writes", 0) + 1
    # short histories through ONE client vector object: a later submit must not re-send earlier elements
    p0 = dict(variant=variant, vec_enabled=True, grp_enabled=True, depth=depth, ndev=ndev, ngroups=2)
    if perm != "rw":
        p0["perm"] = perm
    seqs, want = seq_cases(variant)
    try:
        for si, steps in enumerate(seqs):
            res["executions"] += 1
            res["transitions"] += len(steps)
            record(p0, (0, "TGT"), steps, ("history", si), judge_seq(p0, si))
        res["executions"] += 1
        record(p0, (0, "TGT"), [("back-to-back",)], ("back-to-back", 0), back_to_back(p0))
        if perm == "rw":
            for hi, hist in enumerate(refused_histories(variant)):
                res["executions"] += 1
                res["transitions"] += len(hist[0])
                res["counters"]["refused_histories"] = res["counters"].get("refused_histories", 0) + 1
                record(p0, (0, "TGT"), [("refused-history", hi)], ("refused-history", hi), judge_refused(p0, hist))
    except HandshakeFailed as e:
        record(p0, (0, "TGT"), [], "whole", [("handshake-failed", "kind=%s" % variant, str(e))])
    res["states"] = res["executions"]
    res["violations"] = list(sig.values())
    if variant == "text" and ndev == 2:
        res["samples"].append({"deployment": dict(variant=variant, ndev=ndev), "target": [0, "TGT"], "assignment": [["A", "<&>\"q'"]], "modes": ["whole", "byte", "chunk:7", "every single cut"]})
    return res


def finish(tier, seed, m):
    cov = {
        "states": m["states"],
        "transitions": m["transitions"],
        "traces_validated_against_impl": m["executions"],
        "distinct_writes": m["counters"].get("writes", 0),
        "samples": m["samples"][:1],
        "exhaustive": True,
        "explanation": "states = complete end-to-end executions (deployment x target x assignment x delivery schedule); every one snapshots all elements of all devices before and after",
    }
    cov["_vacuity_errors"] = [] if m["counters"].get("writes", 0) > 100 else ["few writes"]
    return cov


def _t(x):
    if isinstance(x, list):
        return tuple(_t(i) for i in x)
    return x


def replay(rep):
    p = rep["p"]
    if isinstance(rep.get("mode"), list) and rep["mode"][0] == "back-to-back":
        return [{"clause": c, "disc": d, "what": w} for c, d, w in back_to_back(p)]
    if isinstance(rep.get("mode"), list) and rep["mode"][0] == "refused-history":
        return [{"clause": c, "disc": d, "what": w} for c, d, w in judge_refused(p, refused_histories(p["variant"])[rep["mode"][1]])]
    if isinstance(rep.get("mode"), list) and rep["mode"][0] == "history":
        return [{"clause": c, "disc": d, "what": w} for c, d, w in judge_seq(p, rep["mode"][1])]
    assignment = [(n, _t(v) if isinstance(v, list) else v) for n, v in rep["assignment"]]
    mode = _t(rep["mode"]) if isinstance(rep["mode"], list) else rep["mode"]
    target = _t(rep["target"])
    obs = execute(p, target, assignment, mode, rep.get("seed", 0))
    return [{"clause": c, "disc": d, "what": w} for c, d, w in judge(p, target, assignment, obs)]
