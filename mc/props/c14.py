"""C14 - driver event contract: Write, then default update and publication, then Change.

Explicit-state / bounded-history model checking on the real driver framework: for every
handler configuration (0-2 Write / Change / Read handlers, plain or coroutine, vetoing or
not, attached to one element or to two through a list) x element kind x entry path (client
message through the router, set_value(), assignment) x every write sequence of depth <= 3
(thorough 4) over {new value, other value, same value}, a FRESH generated driver class is
run on the virtual loop and the trace of handler invocations (with the element value seen
at each) and of published messages is compared with the contract.
"""
import itertools

LEVEL = "model_checking"
ASSUMPTIONS = [
    "fresh Driver class + definition objects per execution (handler registries live on the shared definitions)",
    "I-2: re-assigning a BLOB: Change may or may not be raised",
    "configurations with a refreshing Read handler are judged on the Read clauses only (the refresh legitimately overrides the written value)",
]

KINDS = ("text", "number", "switch", "switch-oneofmany", "light", "blob")
WRITE_CFG = [(), (("plain", False),), (("plain", True),), (("coro", False),), (("plain", False), ("plain", True)), (("plain", False), ("coro", False)), (("coro", False), ("plain", True)),
             # a plain handler that vetoes the default and assigns the value "the hardware really accepted"
             (("plain-nested", True),), (("plain", False), ("plain-nested", True))]
CHANGE_CFG = [(), ("plain",), ("coro",), ("plain", "coro")]
READ_CFG = [(), (("plain", False),), (("plain", True),), (("coro", False),)]
PATHS = ("client", "set_value", "assign")


def values_for(kind):
    """(default, v1, v2, refresh) as driver-side values + wire text function"""
    if kind == "text":
        return "p", "v1", "v2", "r"
    if kind == "number":
        return 1.0, 2.5, 3.25, 9.75
    if kind == "switch":
        return "Off", "On", "Off", "On"
    if kind == "switch-oneofmany":
        return "On", "Off", "On", "On"  # A is the only selected switch: writing Off is overruled by the rule
    if kind == "light":
        return "Ok", "Busy", "Alert", "Idle"
    return None, ("ab", ".x"), ("cd", ".y"), ("zz", ".r")


def shards(tier, seed):
    sh = []
    for kind in KINDS:
        for path in PATHS:
            if kind == "light" and path == "client":
                continue
            for wi in range(len(WRITE_CFG)):
                sh.append((tier, kind, path, wi))
    for kind in ("switch", "switch-oneofmany"):
        for wi in range(len(WRITE_CFG)):
            sh.append((tier, kind, "selected", wi))  # driver-side assignment through selected_values
    return sh


def nested_value(kind):
    return {"text": "n3", "number": 7.5, "switch": "On", "switch-oneofmany": "On", "light": "Alert", "blob": ("nn", ".n")}[kind]


def peek(el):
    v = el._value
    if hasattr(v, "binary"):
        return (v.binary.decode("latin1"), v.format)
    return v


def execute(kind, path, wcfg, ccfg, rcfg, both, seq, switch_rule="AnyOfMany", inherited=False, disabled=False, runtime=False, served=False):
    """returns observation dict; seq = tuple of 'v1' | 'v2' | 'same'"""
    import indi.message as M
    from indi.device import values as DV
    from indi.device.events import Change, Read, Write, on
    from indi.message import one_parts
    from indi.routing import Client, Router

    import asyncio

    from mc.core.vloop import VLoop
    from mc.gen import drivers as D

    default, v1, v2, refresh = values_for(kind)

    def mkval(v):
        if kind == "blob" and v is not None:
            return DV.BLOB(v[0].encode("latin1"), v[1])
        return v

    log = []
    published = []
    loop = VLoop().install()
    obs = {"ops": [], "errors": []}
    try:
        router = Router()

        class Rec(Client):
            def message_from_device(self, message):
                published.append(message)

        client = Rec()
        router.register_client(client)
        router.process_message(M.EnableBLOB(device="DEV", value="Also"), sender=client)  # the recorder wants BLOB updates too
        els = [dict(attr="a", name="A", default=mkval(default)), dict(attr="b", name="B", default=mkval(default))]
        if kind == "number":
            for e in els:
                e.update(format="%.2f", min=0, max=100, step=0)
        vec = dict(attr="v", kind=kind.split("-")[0], name="V", elements=els)
        if disabled:
            vec["enabled"] = False  # a hidden property: handlers run as usual, nothing is published
        if kind == "switch":
            vec["rule"] = switch_rule
        if kind == "switch-oneofmany":
            vec["rule"] = "OneOfMany"
            els[1]["default"] = "Off"
        spec = dict(name="DEV", groups=[dict(attr="g", name="G", level=0, vectors=[vec])], depth=2 if inherited else 1)

        def handlers(defs):
            vd = defs["g"].vectors["v"]
            ea, eb = vd.elements["a"], vd.elements["b"]
            src = [ea, eb] if both else ea
            methods = {}
            for i, (style, veto) in enumerate(wcfg):
                if style == "plain":

                    def h(self, event, i=i, veto=veto):
                        log.append(("W", i, "plain", event.element.name, peek(event.element), peekv(event.new_value), len(published)))
                        if veto:
                            event.prevent_default = True

                elif style == "plain-nested":

                    def h(self, event, i=i):
                        log.append(("W", i, "plain", event.element.name, peek(event.element), peekv(event.new_value), len(published)))
                        event.prevent_default = True
                        event.element.value = mkval(nested_value(kind))

                else:

                    async def h(self, event, i=i):
                        log.append(("W", i, "coro", event.element.name, peek(event.element), peekv(event.new_value), len(published)))

                methods["w%d" % i] = on(src, Write)(h)
            for i, style in enumerate(ccfg):
                if style == "plain":

                    def h(self, event, i=i):
                        log.append(("C", i, "plain", event.element.name, peek(event.element), (peekv(event.old_value), peekv(event.new_value)), len(published)))

                else:

                    async def h(self, event, i=i):
                        log.append(("C", i, "coro", event.element.name, peek(event.element), (peekv(event.old_value), peekv(event.new_value)), len(published)))

                methods["c%d" % i] = on(src, Change)(h)
            for i, (style, refr) in enumerate(rcfg):
                if style == "plain":

                    def h(self, event, i=i, refr=refr):
                        log.append(("R", i, "plain", event.element.name, peek(event.element), None, len(published)))
                        if refr:
                            event.element.reset_value(mkval(refresh))

                else:

                    async def h(self, event, i=i):
                        log.append(("R", i, "coro", event.element.name, peek(event.element), None, len(published)))

                methods["r%d" % i] = on(ea, Read)(h)
            return methods

        # inherited: the @on handlers (and the group) are declared in a base class, the device is an instance of a subclass
        if runtime:
            # the same handlers subscribed at RUN TIME with attach_event_handler(), as closures nobody else keeps a
            # reference to; plus one handler per event kind that is attached and detached again (never to be invoked)
            import gc

            cls, defs = D.build_class(spec)
            dev = cls(router=router)

            def subscribe():
                for name, meth in handlers(defs).items():
                    for att in meth.event_handler_attachments:
                        if asyncio.iscoroutinefunction(meth):

                            async def f(event, meth=meth):
                                return await meth(None, event)

                        else:

                            def f(event, meth=meth):
                                return meth(None, event)

                        att.src.attach_event_handler(att.event_type, f)
                ea = defs["g"].vectors["v"].elements["a"]
                for evt in (Write, Change, Read):
                    uid = ea.attach_event_handler(evt, lambda event, evt=evt: log.append(("DETACHED", 0, "plain", event.element.name, None, None, len(published))))
                    ea.detach_event_handler(uid)

            subscribe()
            gc.collect()
        else:
            cls, defs = D.build_class(spec, handlers=handlers, handlers_level=0 if inherited else None)
            dev = cls(router=router)
        if served:
            # the deployment serves its drivers through the library's own servers (started as an application starts
            # them): whatever a server sets up on the event loop must not change the handler contract
            import io as _io

            from indi.transport.server.tcp import TCP as _TCP
            from indi.transport.server.tty import TTY as _TTY

            from mc.core import vloop as _V

            tty = _TTY(router, _V.aio_text(_V.LineSource(), loop, _V.CtlExecutor()), _V.aio_text(_io.StringIO(), loop, _V.CtlExecutor()))
            loop.create_task(tty.start())
            loop.quiesce()
            del published[:]
        el = dev.g.v.a
        for step in seq:
            cur = peek(el)
            if step == "near":
                # a number that differs from the current one by less than the property's format (%.2f) shows: a change all the same
                want = round((cur if cur is not None else v1) + 0.001, 6)
            else:
                want = {"v1": v1, "v2": v2, "same": cur}[step]
            if step == "same" and cur is None:
                want = v1
            del log[:]
            del published[:]
            exc = None
            try:
                if path == "client":
                    if kind == "text":
                        ch = one_parts.OneText(name="A", value=want)
                        msg = M.NewTextVector(device="DEV", name="V", children=[ch])
                    elif kind == "number":
                        ch = one_parts.OneNumber(name="A", value="%.6f" % want)
                        msg = M.NewNumberVector(device="DEV", name="V", children=[ch])
                    elif kind in ("switch", "switch-oneofmany"):
                        ch = one_parts.OneSwitch(name="A", value=want)
                        msg = M.NewSwitchVector(device="DEV", name="V", children=[ch])
                    else:
                        import base64

                        raw = want[0].encode("latin1")
                        # size as the parser delivers it: a string
                        ch = one_parts.OneBLOB(name="A", size=str(len(raw)), format=want[1], value=base64.b64encode(raw).decode())
                        msg = M.NewBLOBVector(device="DEV", name="V", children=[ch])
                    router.process_message(msg, sender=client)
                elif path == "selected":
                    # driver-side assignment through the vector: the switches to be On, named
                    others = [n for n, e_ in (("B", dev.g.v.b),) if e_._value == "On"]
                    dev.g.v.selected_values = others + (["A"] if want == "On" else [])
                elif path == "set_value":
                    el.set_value(mkval(want))
                else:
                    el.value = mkval(want)
            except Exception as e:  # noqa
                exc = e
            sync_log = list(log)
            sync_pub = list(published)
            loop.quiesce()
            post = peek(el)
            obs["ops"].append(dict(step=step, pre=cur, want=want, post=post, exc=exc, sync_log=sync_log, log=list(log), published=[pubview(m) for m in published], sync_published=len(sync_pub)))
            if exc is not None:
                break
        # Read clause: what .value returns now, and what a publication shows
        del log[:]
        obs["read_value"] = peekv(el.value)
        obs["read_log"] = list(log)
        obs["errors"] = [e.get("message") for e in loop.collect_errors()]
    finally:
        loop.teardown()
    return obs


def peekv(v):
    if hasattr(v, "binary"):
        return (v.binary.decode("latin1"), v.format)
    return v


def pubview(m):
    import base64

    out = []
    for c in getattr(m, "children", ()) or ():
        v = c.value
        if type(c).__name__ == "OneBLOB" and v is not None:
            v = (base64.b64decode(v).decode("latin1"), c.format)
        out.append((c.name, v))
    return (type(m).__name__, tuple(out))


def render(kind, v):
    if kind == "number" and v is not None:
        return "%.2f" % v
    return v


def judge(kind, path, wcfg, ccfg, rcfg, both, seq, obs, disabled=False):
    fails = []
    default, v1, v2, refresh = values_for(kind)
    refreshing = any(style == "plain" and refr for style, refr in rcfg)
    d = "kind=%s,path=%s%s" % (kind, path, ",nested-assignment" if any(st == "plain-nested" for st, _ in wcfg) and path not in ("assign", "selected") else "")
    for op in obs["ops"]:
        if op["exc"] is not None:
            from mc import lib

            fails.append(("raises", d + "," + lib.exc_site(op["exc"]), "%r: %r" % (op["step"], op["exc"])))
            return fails
        if any(e[0] == "DETACHED" for e in op["log"]):
            fails.append(("detached-handler-invoked", d, "a handler that had been detached was invoked: %r" % ([e for e in op["log"] if e[0] == "DETACHED"],)))
        pre, want, post = op["pre"], op["want"], op["post"]
        wlog = [e for e in op["log"] if e[0] == "W"]
        clog = [e for e in op["log"] if e[0] == "C"]
        veto = any(style == "plain" and v for style, v in wcfg) and path not in ("assign", "selected")
        nested = any(style == "plain-nested" for style, v in wcfg) and path not in ("assign", "selected")
        requested = want
        if nested:
            # the handler vetoes the requested value and assigns another one: that nested assignment must behave
            # like any driver-side assignment (one publication, Change iff changed, no Write event)
            veto = False
            want = nested_value(kind)
        if kind == "switch-oneofmany" and want == "Off":
            want = "On"  # B is never selected here: the rule keeps the only selected switch On
        # --- Write handlers
        if path in ("assign", "selected"):
            if wlog:
                fails.append(("write-on-assignment", d, "Write handlers invoked on assignment: %r" % (wlog,)))
        else:
            for i, (style, v) in enumerate(wcfg):
                calls = [e for e in wlog if e[1] == i and e[3] == "A"]
                if len(calls) != 1:
                    fails.append(("write-handler-count", d + ",style=%s" % style, "Write handler %d invoked %d times: %r" % (i, len(calls), wlog)))
                    continue
                c = calls[0]
                if c[5] != requested:
                    fails.append(("write-handler-value", d, "Write handler saw new_value %r, requested %r" % (c[5], requested)))
                if style in ("plain", "plain-nested"):
                    nested_before = nested and any(st == "plain-nested" for st, _ in wcfg[:i])
                    if (c[4] != pre or c[6] != 0) and not nested_before:
                        fails.append(("write-after-change", d, "plain Write handler ran after a state change: element=%r (pre %r), %d messages already published" % (c[4], pre, c[6])))
                    if c not in op["sync_log"]:
                        fails.append(("plain-handler-deferred", d, "plain Write handler did not run synchronously"))
                else:
                    if c in op["sync_log"]:
                        fails.append(("coroutine-handler-synchronous", d + ",event=Write", "coroutine Write handler ran synchronously inside the write"))
            stray = [e for e in wlog if e[3] != "A"]
            if stray:
                fails.append(("write-handler-wrong-element", d, repr(stray)))
        if refreshing:
            continue
        # --- default update, publication, Change
        sets = [p for p in op["published"] if p[0].startswith("Set")]
        if veto:
            if post != pre:
                fails.append(("veto-ignored", d, "vetoed write changed the value %r -> %r" % (pre, post)))
            if sets:
                fails.append(("veto-published", d, "vetoed write published %r" % (sets,)))
            if clog:
                fails.append(("veto-change-event", d, "vetoed write raised Change %r" % (clog,)))
            continue
        if post != want:
            fails.append(("value-not-taken", d, "wrote %r, element has %r" % (want, post)))
            continue
        if disabled:
            if sets:
                fails.append(("published-while-disabled", d, "the property is disabled, yet %r was published" % (sets,)))
        elif path == "selected" and pre == post and not sets:
            pass  # selected_values assigns only the switches whose state differs: nothing to publish for an unchanged one
        elif len(sets) != 1:
            fails.append(("publication-count", d, "%d update messages published for one write: %r" % (len(sets), sets)))
        else:
            carried = dict(sets[0][1]).get("A")
            if carried != render(kind, post):
                fails.append(("publication-value", d, "published %r, element has %r" % (carried, post)))
            if op["sync_published"] != 1:
                fails.append(("publication-deferred", d, "publication was not synchronous"))
        changed = pre != post
        for i, style in enumerate(ccfg):
            calls = [e for e in clog if e[1] == i and e[3] == "A"]
            n_ok = (len(calls) == 1) if changed else (len(calls) == 0)
            if kind == "blob" and not changed and len(calls) <= 1:
                n_ok = True  # I-2
            if kind == "blob" and changed is False:
                pass
            if not n_ok:
                fails.append(("change-handler-count", d + ",changed=%s,style=%s" % (changed, style), "Change handler %d invoked %d times for %r -> %r" % (i, len(calls), pre, post)))
                continue
            for c in calls:
                if c[5] != (pre, post):
                    fails.append(("change-handler-values", d, "Change saw (old,new)=%r, expected %r" % (c[5], (pre, post))))
                if style == "plain":
                    if c[4] != post:
                        fails.append(("change-before-store", d, "plain Change handler ran before the value was stored (saw %r)" % (c[4],)))
                    if c not in op["sync_log"]:
                        fails.append(("plain-handler-deferred", d, "plain Change handler did not run synchronously"))
                elif c in op["sync_log"]:
                    fails.append(("coroutine-handler-synchronous", d + ",event=Change", "coroutine Change handler ran synchronously"))
        stray = [e for e in clog if e[3] != "A"]
        if stray:
            fails.append(("change-handler-wrong-element", d, repr(stray)))
        # Read handlers ran before the publication
        for i, (style, refr) in enumerate(rcfg):
            if style == "plain" and sets:
                r = [e for e in op["log"] if e[0] == "R" and e[1] == i and e[6] == 0]
                if not r:
                    fails.append(("read-not-before-publication", d, "plain Read handler did not run before the update was published"))
    # Read clause
    if obs["ops"] and obs["ops"][-1]["exc"] is None:
        for i, (style, refr) in enumerate(rcfg):
            if style == "plain":
                if not [e for e in obs["read_log"] if e[0] == "R" and e[1] == i]:
                    fails.append(("read-handler-not-run", d, "plain Read handler did not run on .value"))
                if refr and obs["read_value"] != refresh:
                    fails.append(("read-refresh-not-returned", d, ".value returned %r, Read handler refreshed to %r" % (obs["read_value"], refresh)))
        if refreshing:
            for op in obs["ops"]:
                for p in op["published"]:
                    if p[0].startswith("Set") and dict(p[1]).get("A") != render(kind, refresh):
                        fails.append(("read-refresh-not-published", d, "published %r, Read handler refreshes to %r" % (p, refresh)))
    if obs["errors"]:
        fails.append(("loop-error", d, repr(obs["errors"])))
    return fails


def sequences(tier, kind=None):
    depth = 3 if tier == "quick" else 4
    steps = ("v1", "v2", "same") + (("near",) if kind == "number" else ())
    for n in range(1, depth + 1):
        for s in itertools.product(steps, repeat=n):
            yield s


def run_shard(shard):
    tier, kind, path, wi = shard
    wcfg = WRITE_CFG[wi]
    res = {"states": 0, "transitions": 0, "executions": 0, "violations": [], "samples": [], "counters": {}}
    sig = {}
    for ccfg in CHANGE_CFG:
        for rcfg in READ_CFG:
            for both in (False, True):
                if both and not (wcfg or ccfg):
                    continue
                for seq in sequences(tier, kind):
                    variants = [(False, False)]
                    if len(seq) == 1 and not both:
                        variants.append((True, False))
                    if len(seq) <= 2 and not both:
                        variants.append((False, True))  # the property is disabled
                    if len(seq) <= 2:
                        variants.append(("runtime", False))  # handlers subscribed at run time
                    if len(seq) == 1:
                        variants.append(("served", False))  # the library's TTY server runs in the same loop
                    for inherited, disabled in variants:
                        runtime = inherited == "runtime"
                        served = inherited == "served"
                        if runtime or served:
                            inherited = False
                        obs = execute(kind, path, wcfg, ccfg, rcfg, both, seq, inherited=inherited, disabled=disabled, runtime=runtime, served=served)
                        res["executions"] += 1
                        res["transitions"] += len(obs["ops"])
                        res["counters"]["handler_calls"] = res["counters"].get("handler_calls", 0) + sum(len(o["log"]) for o in obs["ops"])
                        for clause, disc, what in judge(kind, path, wcfg, ccfg, rcfg, both, seq, obs, disabled):
                            if inherited:
                                disc += ",inherited-handlers"
                            if disabled:
                                disc += ",disabled-property"
                            if runtime:
                                disc += ",runtime-attached"
                            if served:
                                disc += ",server-running"
                            key = (clause, disc)
                            if key in sig:
                                sig[key]["count"] += 1
                            else:
                                sig[key] = {"clause": clause, "disc": disc, "count": 1, "what": "W=%r C=%r R=%r both=%r seq=%r: %s" % (wcfg, ccfg, rcfg, both, seq, what), "replay": dict(kind=kind, path=path, wcfg=wcfg, ccfg=ccfg, rcfg=rcfg, both=both, seq=seq, inherited=inherited, disabled=disabled, runtime=runtime, served=served)}
    res["states"] = res["executions"]
    res["violations"] = list(sig.values())
    if kind == "text" and path == "client" and wi == 4:
        res["samples"].append(dict(kind=kind, path=path, write_handlers=wcfg, change_handlers=CHANGE_CFG[3], read_handlers=READ_CFG[1], sequence=("v1", "same")))
    return res


def finish(tier, seed, m):
    cov = {
        "states": m["states"],
        "transitions": m["transitions"],
        "traces_validated_against_impl": m["executions"],
        "handler_invocations_checked": m["counters"].get("handler_calls", 0),
        "samples": m["samples"][:2],
        "exhaustive": True,
        "explanation": "states = complete executions (handler configuration x kind x entry path x write sequence), transitions = write operations performed; every trace compared with the contract",
    }
    cov["_vacuity_errors"] = [] if m["counters"].get("handler_calls", 0) > 1000 else ["few handler calls"]
    return cov


def _t(x):
    if isinstance(x, list):
        return tuple(_t(i) for i in x)
    return x


def replay(rep):
    a = [rep["kind"], rep["path"], _t(rep["wcfg"]), _t(rep["ccfg"]), _t(rep["rcfg"]), rep["both"], _t(rep["seq"])]
    inh = rep.get("inherited", False)
    dis = rep.get("disabled", False)
    rt = rep.get("runtime", False)
    sv = rep.get("served", False)
    obs = execute(*a, inherited=inh, disabled=dis, runtime=rt, served=sv)
    return [{"clause": c, "disc": d + (",inherited-handlers" if inh else "") + (",disabled-property" if dis else "") + (",runtime-attached" if rt else "") + (",server-running" if sv else ""), "what": w} for c, d, w in judge(*a, obs, dis)]
