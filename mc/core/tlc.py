"""E5: TLC bridge.  Runs TLC on a spec whose actions PrintT their edges as <<"E", ...>>
tuples and streams them through a small parser for TLC's value syntax."""
import os
import re
import shutil
import subprocess
import tempfile

TLA_DIR = os.path.join(os.path.dirname(os.path.dirname(os.path.abspath(__file__))), "tla")


class Tok:
    def __init__(self, s):
        self.s = s
        self.i = 0

    def ws(self):
        s = self.s
        while self.i < len(s) and s[self.i] in " \t\r\n":
            self.i += 1

    def peek(self, k=1):
        self.ws()
        return self.s[self.i : self.i + k]

    def eat(self, t):
        self.ws()
        if not self.s.startswith(t, self.i):
            raise ValueError("expected %r at %d: %r" % (t, self.i, self.s[self.i : self.i + 30]))
        self.i += len(t)


def parse_value(t):
    """TLC value -> Python: sets -> frozenset, tuples -> tuple, records/functions -> dict,
    strings -> str, TRUE/FALSE -> bool, integers -> int, model values -> str."""
    p = t.peek(2)
    if p == "<<":
        t.eat("<<")
        out = []
        if t.peek(2) == ">>":
            t.eat(">>")
            return tuple(out)
        while True:
            out.append(parse_value(t))
            if t.peek(2) == ">>":
                t.eat(">>")
                return tuple(out)
            t.eat(",")
    if p[:1] == "{":
        t.eat("{")
        out = []
        if t.peek() == "}":
            t.eat("}")
            return frozenset()
        while True:
            out.append(parse_value(t))
            if t.peek() == "}":
                t.eat("}")
                return frozenset(out)
            t.eat(",")
    if p[:1] == "[":
        t.eat("[")
        d = {}
        while True:
            t.ws()
            j = t.i
            while t.s[t.i] not in " |":
                t.i += 1
            key = t.s[j : t.i]
            t.eat("|->")
            d[key] = parse_value(t)
            if t.peek() == "]":
                t.eat("]")
                return d
            t.eat(",")
    if p[:1] == "(":
        # function printed as (k :> v @@ k2 :> v2)
        t.eat("(")
        d = {}
        while True:
            k = parse_value(t)
            t.eat(":>")
            d[k] = parse_value(t)
            if t.peek() == ")":
                t.eat(")")
                return d
            t.eat("@@")
    if p[:1] == '"':
        t.eat('"')
        j = t.i
        while t.s[t.i] != '"':
            if t.s[t.i] == "\\":
                t.i += 1
            t.i += 1
        v = t.s[j : t.i]
        t.i += 1
        return v
    t.ws()
    j = t.i
    while t.i < len(t.s) and (t.s[t.i].isalnum() or t.s[t.i] in "_-"):
        t.i += 1
    w = t.s[j : t.i]
    if w == "TRUE":
        return True
    if w == "FALSE":
        return False
    if w.lstrip("-").isdigit():
        return int(w)
    if not w:
        raise ValueError("cannot parse at %d: %r" % (t.i, t.s[t.i : t.i + 30]))
    return w


def run_edges(spec, cfg, workdir_prefix="/tmp/indipy-tlc-"):
    """generator of parsed <<"E", ...>> tuples printed by TLC, then a final dict summary.
    Raises RuntimeError if TLC reports an error (invariant violation in the model, parse error)."""
    meta = tempfile.mkdtemp(prefix=workdir_prefix)
    try:
        cmd = ["tlc", "-workers", "1", "-noGenerateSpecTE", "-metadir", meta, "-deadlock", "-config", cfg, spec]
        # the JVM's own scratch directory (java.io.tmpdir: TLC leaves an empty tlc-<n> directory there) goes into the
        # metadir as well, so that nothing is left behind under /tmp
        env = dict(os.environ, JAVA_TOOL_OPTIONS=(os.environ.get("JAVA_TOOL_OPTIONS", "") + " -Djava.io.tmpdir=" + meta).strip())
        proc = subprocess.Popen(cmd, cwd=TLA_DIR, stdout=subprocess.PIPE, stderr=subprocess.STDOUT, text=True, env=env)
        buf = None
        tail = []
        summary = {}
        for line in proc.stdout:
            if buf is not None:
                buf.append(line)
                if line.rstrip().endswith(">>") and _balanced("".join(buf)):
                    yield parse_value(Tok("".join(buf)))
                    buf = None
                continue
            if line.startswith('<< "E"') or line.startswith('<<"E"'):
                if line.rstrip().endswith(">>") and _balanced(line):
                    yield parse_value(Tok(line))
                else:
                    buf = [line]
                continue
            tail.append(line)
            if len(tail) > 60:
                tail.pop(0)
            mm = re.match(r"^(\d+) states generated, (\d+) distinct states found, (\d+) states left on queue", line)
            if mm:
                summary["generated"] = int(mm.group(1))
                summary["distinct"] = int(mm.group(2))
                summary["left"] = int(mm.group(3))
            if "Error:" in line or "is violated" in line:
                summary["error"] = line.strip()
        rc = proc.wait()
        summary["rc"] = rc
        if rc != 0 or "error" in summary or "distinct" not in summary:
            raise RuntimeError("TLC failed (rc=%s): %s\n%s" % (rc, summary.get("error"), "".join(tail[-25:])))
        yield summary
    finally:
        shutil.rmtree(meta, ignore_errors=True)


def _balanced(s):
    return s.count("<<") == s.count(">>") and s.count("[") == s.count("]") and s.count("{") == s.count("}")
