"""End-to-end world on the virtual loop: real Router + generated real Drivers + real server
ConnectionHandlers + real client ConnectionHandlers + real indi.client.Client, joined by
Wires whose byte delivery the explorer owns."""
import asyncio

from mc.core import vloop as V


class HandshakeFailed(Exception):
    """the library Client did not end up with the devices of the deployment after start() + getProperties"""


class FakeConnection:
    """duck-typed stand-in for indi.transport.client.tcp.TCP: connect() builds the REAL client
    ConnectionHandler on fake streams and spawns the REAL server handler for the other end."""

    def __init__(self, world, name, gated=False):
        self.world = world
        self.name = name
        self.link = None
        # gated: connect() completes only when the explorer opens the gate (connection latency: the order in which
        # the client's two connections get established is the environment's choice)
        self.gate = None
        if gated:
            import asyncio

            self.gate = asyncio.Event()

    async def connect(self, callback, for_blobs=False):
        from indi.transport.client.tcp import ConnectionHandler

        if self.gate is not None:
            await self.gate.wait()
        link = self.world.new_link(self.name)
        self.link = link
        return ConnectionHandler(link.client_ep.reader, link.client_ep.writer, callback, for_blobs=for_blobs)


class Link:
    """one TCP connection: client endpoint <-> server endpoint, with the real server handler task"""

    def __init__(self, world, name, transport="tcp"):
        from indi.transport.server.tcp import ConnectionHandler as ServerHandler

        loop = world.loop
        self.name = name
        self.client_ep = V.Endpoint(loop, name + ".client")
        self.server_ep = V.Endpoint(loop, name + ".server")
        self.c2s = V.Pipe(self.client_ep, self.server_ep, name + ".c2s")
        self.s2c = V.Pipe(self.server_ep, self.client_ep, name + ".s2c")
        self.server_task = loop.create_task(ServerHandler.handler(world.router)(self.server_ep.reader, self.server_ep.writer))
        self.c2s_log = bytearray()
        self.s2c_log = bytearray()

    def server_handler(self, world):
        """the live server ConnectionHandler object of this link (found through the router's client list)"""
        for c in world.router.clients:
            if getattr(c, "reader", None) is self.server_ep.reader:
                return c
        return None


class World:
    hang_count = 0  # number of Buffer.process calls stopped by the CPU watchdog in this process

    def __init__(self, specs, handlers=None, now="2024-01-01T00:00:00", guard_buffers=False):
        self.loop = None
        self._buffer_patch = None
        self._M = None
        try:
            self._init(specs, handlers, now, guard_buffers)
        except BaseException:
            # never leave a half-built world behind: the virtual loop is installed as the running loop
            if self.loop is not None:
                try:
                    self.loop.teardown()
                except Exception:
                    pass
            if self._M is not None:
                self._M.now = self._saved_now
            if self._buffer_patch:
                self._buffer_patch[0].process = self._buffer_patch[1]
            raise

    def _init(self, specs, handlers=None, now="2024-01-01T00:00:00", guard_buffers=False):
        import indi.message as M
        from indi.routing import Router
        from indi.transport.server import tcp as server_tcp

        from mc.gen import drivers as D

        self.loop = V.VLoop().install()
        self._M = M
        self._saved_now = M.now
        self.now_value = now  # the harness owns the wall clock; a check may move it (also backwards) between operations
        M.now = lambda: self.now_value  # reproducible bytes (the library stamps messages with the wall clock)
        # instance vectors module binds message.now via 'message.now()' attribute lookup: patched through the module
        server_tcp.ConnectionHandler.connections = []
        Router._instance = None
        self.router = Router()
        self.specs = specs
        self.devices = []
        self.defs = []
        classes = []
        for spec in specs:
            bi = spec.get("derive_from")
            cls, defs = D.build_class(spec, handlers=handlers, base_cls=classes[bi] if bi is not None else None, base_defs=self.defs[bi] if bi is not None else None)
            classes.append(cls)
            self.devices.append(cls(router=self.router))
            self.defs.append(defs)
        self._buffer_patch = None
        if guard_buffers:
            self._guard_buffers()
        self.links = []
        self.delivery = "whole"  # whole | byte | chunk:<n>
        self.cuts = None  # optional {pipe_name: [absolute cut positions]}
        self.chooser = None

    def _guard_buffers(self, cpu_limit=20.0):
        """run every Buffer.process under the CPU watchdog: a livelock inside it becomes a Hang exception"""
        import signal

        from indi.transport import buffer as B

        from mc.core.bufgraph import Hang

        if getattr(B.Buffer, "_mc_guarded", False):
            return  # the process-wide watchdog of mc.core.guard is already in place
        orig = B.Buffer.process

        def handler(signum, frame):
            World.hang_count += 1
            raise Hang("Buffer.process did not return within %ss of CPU time" % cpu_limit)

        def guarded(buf, callback):
            old = signal.signal(signal.SIGVTALRM, handler)
            signal.setitimer(signal.ITIMER_VIRTUAL, cpu_limit)
            try:
                return orig(buf, callback)
            finally:
                signal.setitimer(signal.ITIMER_VIRTUAL, 0)
                signal.signal(signal.SIGVTALRM, old)

        B.Buffer.process = guarded
        self._buffer_patch = (B.Buffer, orig)

    def new_link(self, name):
        l = Link(self, "%s%d" % (name, len(self.links)))
        self.links.append(l)
        return l

    def pipes(self):
        out = []
        for l in self.links:
            out.append(l.c2s)
            out.append(l.s2c)
        return out

    def make_client(self, connect_order=None, between=None):
        """connect_order: None (both connections are established at once) or a sequence such as ("ctl", "blob") /
        ("blob", "ctl"): the connections are established in that order, with everything in flight delivered in between"""
        from indi.client.client import Client

        conns = {"ctl": FakeConnection(self, "ctl", gated=bool(connect_order)), "blob": FakeConnection(self, "blob", gated=bool(connect_order))}
        c = Client(conns["ctl"], conns["blob"])
        t = self.loop.create_task(c.start())
        self.settle()
        for k, which in enumerate(connect_order or ()):
            conns[which].gate.set()
            self.settle()
            if between is not None and k == 0:
                between()  # what the devices do while only one of the two connections is up
                self.settle()
        if not t.done():
            raise HandshakeFailed("Client.start() did not complete")
        t.result()
        missing = [s["name"] for s in self.specs if s["name"] not in c.devices]
        if missing and any(v.get("enabled", True) and g.get("enabled", True) for s in self.specs if s["name"] in missing for g in s["groups"] for v in g["vectors"]):
            raise HandshakeFailed("after the handshake the client knows nothing about device(s) %r (receive loops ended: %r)" % (missing, [l.server_task.done() for l in self.links]))
        return c

    def deliver_some(self, pipe):
        n = len(pipe.pending)
        if self.delivery == "byte":
            n = 1
        elif self.delivery.startswith("chunk:"):
            n = min(n, int(self.delivery.split(":")[1]))
        if self.cuts and pipe.name in self.cuts:
            for c in self.cuts[pipe.name]:
                if pipe.delivered < c < pipe.delivered + n:
                    n = c - pipe.delivered
                    break
        pipe.deliver(n)

    def settle(self, limit=200000):
        """run until the loop is quiescent and every pipe is empty. Pipe choice: FIFO by creation order
        (choice 0) or, with a chooser, any pipe with pending bytes (deviation)."""
        k = 0
        while True:
            self.loop.quiesce()
            pend = [p for p in self.pipes() if p.pending and not p.dst.transport.closing]
            if not pend:
                return
            i = 0
            if self.chooser is not None and len(pend) > 1:
                i = self.chooser.choose(len(pend), None, "pipe")
            self.deliver_some(pend[i])
            k += 1
            if k > limit:
                raise RuntimeError("World.settle: no quiescence (livelock?)")

    def close(self):
        try:
            self.loop.teardown()
        finally:
            self._M.now = self._saved_now
            if self._buffer_patch:
                self._buffer_patch[0].process = self._buffer_patch[1]
