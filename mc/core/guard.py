"""Process-wide watchdog for indi.transport.buffer.Buffer.process.

Installed once per checker process (mc.cli).  A call that burns more than the CPU limit is stopped with Hang (a
livelock inside the receive buffer must become a finding, not a hung check).  Exceptions raised inside an asyncio
task are swallowed by the task, so a harness cannot count on seeing the Hang itself: the number of hangs is kept
here, and after two of them every further call fails fast - otherwise a livelock mutant would cost the CPU limit
once per execution.  mc.core.bufgraph has its own (shorter) per-call limit and calls the unguarded method."""
import signal

HANGS = [0]
CPU_LIMIT = [20.0]


class Hang(Exception):
    pass


def _handler(signum, frame):
    HANGS[0] += 1
    raise Hang("Buffer.process did not return within %ss of CPU time" % CPU_LIMIT[0])


def install(cpu_limit=20.0):
    from indi.transport import buffer as B

    CPU_LIMIT[0] = cpu_limit
    if getattr(B.Buffer, "_mc_guarded", False):
        return
    orig = B.Buffer.process

    def guarded(buf, callback):
        if HANGS[0] >= 2:
            raise Hang("Buffer.process disabled by the harness after %d calls that never returned" % HANGS[0])
        old = signal.signal(signal.SIGVTALRM, _handler)
        signal.setitimer(signal.ITIMER_VIRTUAL, CPU_LIMIT[0])
        try:
            return orig(buf, callback)
        finally:
            signal.setitimer(signal.ITIMER_VIRTUAL, 0)
            signal.signal(signal.SIGVTALRM, old)

    B.Buffer.process = guarded
    B.Buffer._mc_orig_process = orig
    B.Buffer._mc_guarded = True


def hangs():
    return HANGS[0]
