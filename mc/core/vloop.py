"""E3: virtual event loop and fake I/O.

VLoop is an asyncio.BaseEventLoop with a virtual clock and no selector; step() reproduces
BaseEventLoop._run_once (move due timers to _ready, run the handles that were ready at
entry).  Streams are the real asyncio.StreamReader / StreamReaderProtocol / StreamWriter
over FakeTransport; TTY files are real aiofiles wrappers over a controlled executor.
"""
import asyncio
import concurrent.futures
import gc
import heapq
import io
import threading
from asyncio import events


class VLoop(asyncio.BaseEventLoop):
    def __init__(self):
        super().__init__()
        self._vtime = 0.0
        self._clock_resolution = 0.0
        self.errors = []
        self.default_ctl = None
        self.auto_default_jobs = True
        self.set_exception_handler(self._on_error)
        self._installed = False

    # --- plumbing -----------------------------------------------------------------------
    def time(self):
        return self._vtime

    def run_in_executor(self, executor, func, *args):
        # the loop's DEFAULT executor is owned too (no real thread pool is ever created): jobs wait in
        # self.default_ctl; quiesce() runs them FIFO unless an explorer takes over (auto_default_jobs = False)
        if executor is None:
            if self.default_ctl is None:
                self.default_ctl = CtlExecutor()
            executor = self.default_ctl
        return super().run_in_executor(executor, func, *args)

    def _write_to_self(self):
        pass

    def _process_events(self, event_list):
        pass

    def _on_error(self, loop, ctx):
        self.errors.append({k: (repr(v) if k != "message" else v) for k, v in ctx.items() if k in ("message", "exception", "task", "future")})

    def install(self):
        events._set_running_loop(self)
        self._thread_id = threading.get_ident()
        self._installed = True
        return self

    def uninstall(self):
        if self._installed:
            events._set_running_loop(None)
            self._thread_id = None
            self._installed = False

    def __enter__(self):
        return self.install()

    def __exit__(self, *a):
        self.teardown()

    # --- stepping -----------------------------------------------------------------------
    def _move_due_timers(self):
        sched = self._scheduled
        while sched and sched[0]._cancelled:
            h = heapq.heappop(sched)
            h._scheduled = False
            self._timer_cancelled_count = max(0, self._timer_cancelled_count - 1)
        while sched and sched[0]._when <= self._vtime:
            h = heapq.heappop(sched)
            h._scheduled = False
            if h._cancelled:
                self._timer_cancelled_count = max(0, self._timer_cancelled_count - 1)
                continue
            self._ready.append(h)

    def step(self):
        """one loop iteration at the current virtual time; returns number of handles run"""
        self._move_due_timers()
        ntodo = len(self._ready)
        ran = 0
        for _ in range(ntodo):
            h = self._ready.popleft()
            if h._cancelled:
                continue
            h._run()
            ran += 1
        return ran

    def has_ready(self):
        self._move_due_timers()
        return any(not h._cancelled for h in self._ready)

    def quiesce(self, limit=100000):
        n = 0
        while True:
            while self.has_ready():
                self.step()
                n += 1
                if n > limit:
                    raise RuntimeError("VLoop.quiesce: no quiescence after %d iterations (livelock)" % limit)
            if self.auto_default_jobs and self.default_ctl is not None and len(self.default_ctl):
                self.default_ctl.run(0)
                continue
            return n

    def next_timer(self):
        t = None
        for h in self._scheduled:
            if not h._cancelled and (t is None or h._when < t):
                t = h._when
        return t

    def advance_to(self, t):
        if t < self._vtime:
            raise ValueError("time goes backwards")
        self._vtime = t

    def run_until(self, horizon, on_quiescent=None):
        """quiesce, then jump to the next timer, until no timer <= horizon is left."""
        while True:
            self.quiesce()
            if on_quiescent:
                on_quiescent()
            t = self.next_timer()
            if t is None or t > horizon:
                return
            self.advance_to(t)

    def teardown(self):
        try:
            for _ in range(5):
                tasks = [t for t in asyncio.all_tasks(self) if not t.done()]
                if not tasks:
                    break
                for t in tasks:
                    t.cancel()
                self.quiesce()
            for t in asyncio.all_tasks(self):
                if t.done() and not t.cancelled():
                    t.exception()  # mark retrieved: teardown noise is not a finding
        finally:
            self.uninstall()
            self._ready.clear()
            self._scheduled.clear()
            if not self.is_closed():
                self.close()

    def collect_errors(self):
        gc.collect(1)
        return list(self.errors)


# ---------------------------------------------------------------------------------------
# real asyncio streams over a fake transport


class FakeTransport(asyncio.Transport):
    def __init__(self, loop, protocol, name=""):
        super().__init__()
        self._loop = loop
        self._protocol = protocol
        self.name = name
        self.chunks = []  # every write() call, in order
        self.closing = False
        self.closed_exc = "open"
        self.on_write = None  # callback(bytes) -> None (used by Wire)
        self.fail_writes = None  # exception to raise from write()
        self.writes_after_close = 0  # write() calls on a transport that is already closing (asyncio drops them)
        self.bytes_after_close = 0

    def write(self, data):
        if self.fail_writes is not None:
            raise self.fail_writes
        if self.closing:
            self.writes_after_close += 1
            self.bytes_after_close += len(data)
            return
        b = bytes(data)
        self.chunks.append(b)
        if self.on_write:
            self.on_write(b)

    def writelines(self, lines):
        for l in lines:
            self.write(l)

    def is_closing(self):
        return self.closing

    def close(self):
        if not self.closing:
            self.closing = True
            self._loop.call_soon(self._lost, None)

    def abort(self):
        self.close()

    def _lost(self, exc):
        if self.closed_exc == "open":
            self.closed_exc = exc
            self._protocol.connection_lost(exc)

    def lose(self, exc):
        """peer reset: connection_lost(exc) without a local close()"""
        self.closing = True
        self._lost(exc)

    def get_extra_info(self, name, default=None):
        return default

    def can_write_eof(self):
        return False

    def get_write_buffer_size(self):
        return 0

    def pause_reading(self):
        pass

    def resume_reading(self):
        pass

    def data(self):
        return b"".join(self.chunks)


class Endpoint:
    """reader/writer pair as asyncio.open_connection / start_server would hand out"""

    def __init__(self, loop, name=""):
        self.loop = loop
        self.reader = asyncio.StreamReader(loop=loop)
        self.protocol = asyncio.StreamReaderProtocol(self.reader, loop=loop)
        self.transport = FakeTransport(loop, self.protocol, name)
        self.protocol.connection_made(self.transport)
        self.writer = asyncio.StreamWriter(self.transport, self.protocol, self.reader, loop)
        self.name = name

    # environment actions
    def feed(self, data):
        self.reader.feed_data(data)

    def eof(self):
        self.reader.feed_eof()

    def read_error(self, exc):
        self.reader.set_exception(exc)

    def pause(self):
        self.protocol.pause_writing()

    def resume(self):
        self.protocol.resume_writing()

    def written(self):
        return self.transport.data()


class Pipe:
    """one direction of a Wire: bytes written by src wait here until the explorer delivers them to dst"""

    def __init__(self, src, dst, name):
        self.src, self.dst, self.name = src, dst, name
        self.pending = bytearray()
        self.delivered = 0
        src.transport.on_write = self.pending.extend

    def deliver(self, n=None):
        if n is None or n > len(self.pending):
            n = len(self.pending)
        if n == 0:
            return 0
        data = bytes(self.pending[:n])
        del self.pending[:n]
        self.delivered += n
        self.dst.feed(data)
        return n


# ---------------------------------------------------------------------------------------
# controlled executor for aiofiles


class Job:
    def __init__(self, fn, args, fut):
        self.fn, self.args, self.fut = fn, args, fut

    def run(self):
        if not self.fut.set_running_or_notify_cancel():
            return
        try:
            r = self.fn(*self.args)
        except BaseException as e:  # noqa
            self.fut.set_exception(e)
        else:
            self.fut.set_result(r)


class CtlExecutor(concurrent.futures.Executor):
    """submit() only queues; the explorer decides which queued job runs next."""

    def __init__(self):
        self.queue = []

    def submit(self, fn, *args, **kwargs):
        fut = concurrent.futures.Future()
        self.queue.append(Job(fn, args, fut))
        return fut

    def run(self, i=0):
        job = self.queue.pop(i)
        job.run()

    def __len__(self):
        return len(self.queue)


class LineSource(io.TextIOBase):
    """stdin stand-in: readline() returns the next supplied line ('' = EOF)."""

    def __init__(self):
        self.lines = []
        self.error = None

    def supply(self, line):
        self.lines.append(line)

    def readable(self):
        return True

    def available(self):
        return bool(self.lines) or self.error is not None

    def readline(self, *a):
        if self.error is not None:
            e, self.error = self.error, None
            raise e
        return self.lines.pop(0)


def aio_text(fileobj, loop, executor):
    from aiofiles.threadpool.text import AsyncTextIOWrapper

    return AsyncTextIOWrapper(fileobj, loop=loop, executor=executor)
