"""E1 specialised to the receive buffer: the all-partitions graph of one stream.

State  = (position i in the stream, canonical snapshot of the real Buffer object, #delivered)
Edge   = "append S[i:i+k]; process(callback)" for EVERY k in 1..|S|-i, executed on a deep copy
         of the real Buffer stored for the source state.
Because an edge's behaviour depends only on the source Buffer object and the appended text,
and the edge oracle reads only (i, nd, k, deliveries, resulting buffer), covering every edge of
this graph decides every one of the 2^(|S|-1) partitions of the stream (cross-checked against
plain path enumeration for short streams by c02's self-check).
"""
import copy
import io
import signal
from collections import deque


class Livelock(Exception):
    pass


class Hang(Exception):
    pass


def _vt_handler(signum, frame):
    raise Hang("Buffer.process did not return within the per-call CPU limit")


def snap(obj, _depth=0):
    """Complete generic canonical snapshot (DESIGN: canonicalisation rule)."""
    if obj is None or isinstance(obj, (bool, int, float, str, bytes)):
        return obj
    if isinstance(obj, io.StringIO):
        return ("StringIO", obj.getvalue(), obj.tell())
    if isinstance(obj, (list, tuple)):
        return tuple(snap(x, _depth + 1) for x in obj)
    if isinstance(obj, dict):
        return tuple(sorted((repr(k), snap(v, _depth + 1)) for k, v in obj.items()))
    if isinstance(obj, (set, frozenset)):
        return tuple(sorted(repr(x) for x in obj))
    if _depth > 6:
        return repr(type(obj))
    if hasattr(obj, "__dict__"):
        return (type(obj).__name__,) + tuple(sorted((k, snap(v, _depth + 1)) for k, v in vars(obj).items()))
    return repr(obj)


def make_buffer(T):
    from indi.transport import Buffer

    b = Buffer()
    b.max_buffer_size_before_frontal_cleanup = T
    return b


NONE_LIMIT = 3


def guarded_process(buf, piece, delivered, cpu_limit=5.0):
    """append + process on the real buffer under the lasso / hang watchdogs.
    Returns None or an exception object (Livelock, Hang, or whatever process raised)."""
    state = {"none": 0}

    def cb(msg):
        if msg is None:
            state["none"] += 1
            delivered.append(None)
            if state["none"] >= NONE_LIMIT:
                # Buffer.process is deterministic and the callback does not touch the buffer:
                # the same (unchanged) buffer seen again at the loop head proves non-termination
                raise Livelock("callback(None) repeated with an unchanged buffer")
            return
        delivered.append(msg)

    import time

    old = signal.signal(signal.SIGVTALRM, _vt_handler)
    signal.setitimer(signal.ITIMER_VIRTUAL, cpu_limit)
    t0 = time.process_time()
    try:
        buf.append(piece)
        # the unguarded method: this function is the watchdog here (mc.core.guard wraps Buffer.process process-wide)
        getattr(type(buf), "_mc_orig_process", type(buf).process)(buf, cb)
        used = time.process_time() - t0
        if used > cpu_limit:
            # the alarm fired inside C code (a regular-expression match, a parser call) and the exception it raised
            # was swallowed by an "except Exception" of the library: the call returned, but only after the limit
            return Hang("Buffer.process returned only after %.1f s of CPU (limit %.1f s)" % (used, cpu_limit))
        return None
    except (Livelock, Hang) as e:
        return e
    except Exception as e:  # noqa
        return e
    finally:
        signal.setitimer(signal.ITIMER_VIRTUAL, 0)
        signal.signal(signal.SIGVTALRM, old)


def explore(S, T, check_edge, max_hangs=3, cpu_limit=5.0, merged=True, state_cap=None, double_append=False):
    """Returns dict(states, transitions, violations=[(fails, pieces)], capped)."""
    n = len(S)
    b0 = make_buffer(T)
    init = (0, snap(b0), 0) if merged else (0, (), 0)
    store = {init: b0}
    parent = {init: None}
    frontier = deque([init])
    transitions = 0
    violations = []
    hangs = 0
    maxdepth = 0
    depth = {init: 0}
    capped = False
    while frontier:
        st = frontier.popleft()
        i, _, nd = st
        buf = store.pop(st)
        for k in range(1, n - i + 1):
            b = copy.deepcopy(buf)
            delivered = []
            exc = guarded_process(b, S[i : i + k], delivered, cpu_limit)
            transitions += 1
            fails = check_edge(i, nd, k, delivered, b, exc)
            if double_append and not fails and k >= 2:
                # the same characters handed over in TWO append() calls before the one process() call (a caller may
                # buffer several reads): judged by the same oracle, and the buffer must end up in the same state
                for j in ({k - 1, k // 2} if double_append == "both" else {k - 1}):
                    b2 = copy.deepcopy(buf)
                    d2 = []
                    b2.append(S[i : i + j])
                    exc2 = guarded_process(b2, S[i + j : i + k], d2, cpu_limit)
                    transitions += 1
                    fails = check_edge(i, nd, k, d2, b2, exc2)
                    if not fails and exc is None and snap(b2) != snap(b):
                        fails = [("append-append-process-differs", "threshold=%s" % T, "appending %r and %r before one process() leaves the buffer in another state than appending them at once" % (S[i : i + j][-20:], S[i + j : i + k][:20]))]
                    if fails:
                        violations.append((fails, path_to(parent, st, S) + [["append-only", S[i : i + j]], S[i + j : i + k]]))
                        break
                if fails:
                    continue
            if fails:
                violations.append((fails, path_to(parent, st, S) + [S[i : i + k]]))
                if isinstance(exc, Hang):
                    hangs += 1
                    if hangs >= max_hangs:
                        return dict(states=len(parent), transitions=transitions, violations=violations, capped=True, maxdepth=maxdepth)
                continue
            ns = (i + k, snap(b) if merged else tuple(path_to(parent, st, S) + [S[i : i + k]]), nd + len(delivered))
            if ns not in parent:
                if state_cap and len(parent) >= state_cap:
                    capped = True
                    continue
                parent[ns] = (st, k)
                store[ns] = b
                depth[ns] = depth[st] + 1
                maxdepth = max(maxdepth, depth[ns])
                frontier.append(ns)
    return dict(states=len(parent), transitions=transitions, violations=violations, capped=capped, maxdepth=maxdepth)


def path_to(parent, st, S):
    pieces = []
    while parent[st] is not None:
        p, k = parent[st]
        pieces.append(S[p[0] : p[0] + k])
        st = p
    pieces.reverse()
    return pieces


def run_pieces(pieces, T, cpu_limit=5.0):
    """Straight-line replay without the explorer: returns per-call (delivered, exc, data_len)."""
    b = make_buffer(T)
    out = []
    for p in pieces:
        d = []
        exc = guarded_process(b, p, d, cpu_limit)
        out.append((d, exc, b.data_len, b.data))
        if exc is not None:
            break
    return out
