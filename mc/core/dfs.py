"""E2: stateless deviation-bounded explorer.

An execution is a sequence of choices.  run(chooser) replays chooser.prefix (a choice that is
out of range while replaying is a hard harness error), then takes choice 0 ("default
environment answer") to the end.  Alternatives are enumerated depth-first, each costing its
declared deviation cost; executions whose total cost exceeds the bound are not started.
Each complete choice sequence within the bound is executed exactly once.
"""


class ReplayDivergence(Exception):
    pass


class Chooser:
    def __init__(self, prefix=()):
        self.prefix = list(prefix)
        self.trace = []
        self.points = []  # (n, costs, label)

    def choose(self, n, costs=None, label=None):
        """returns a choice in range(n); costs[i] = deviation cost of alternative i (costs[0] must be 0)"""
        if n <= 0:
            raise ValueError("choice point without alternatives")
        i = len(self.trace)
        if i < len(self.prefix):
            c = self.prefix[i]
            if c >= n:
                raise ReplayDivergence("choice %d of point %d (%s) not enabled during replay (n=%d)" % (c, i, label, n))
        else:
            c = 0
        if costs is None:
            costs = [0] + [1] * (n - 1)
        self.trace.append(c)
        self.points.append((n, costs, label))
        return c

    def cost(self, upto=None):
        pts = self.points if upto is None else self.points[:upto]
        return sum(costs[c] for (n, costs, _), c in zip(pts, self.trace))


def explore(run, bound=None, max_execs=None):
    """generator of (chooser, observation) for every choice sequence within the bound."""
    stack = [[]]
    n = 0
    while stack:
        prefix = stack.pop()
        ch = Chooser(prefix)
        obs = run(ch)
        if len(ch.trace) < len(prefix):
            raise ReplayDivergence("execution ended before the replayed prefix was consumed: %r" % (prefix,))
        n += 1
        yield ch, obs
        if max_execs and n >= max_execs:
            return
        base = ch.cost(len(prefix))
        acc = base
        new = []
        for i in range(len(prefix), len(ch.trace)):
            npts, costs, _ = ch.points[i]
            for alt in range(1, npts):
                if bound is None or acc + costs[alt] <= bound:
                    new.append(ch.trace[:i] + [alt])
            acc += costs[ch.trace[i]]
        # depth-first, but keep "shallowest deviation first" order
        stack.extend(reversed(new))
