#!/venv/bin/python
"""Collect confirmed seeded changes into /verif/seeded/<id>/ and write selftest/RESULTS.md.

A seeded change is kept only if I confirmed myself (selftest/try_seed.py on a scratch copy of /repo's
HEAD, never in /repo): the patch applies, the pinned suite still passes with it, its demonstration
fails with the change and passes without it."""
import glob, json, os, shutil

ROOT = os.path.dirname(os.path.dirname(os.path.abspath(__file__)))
rows = []
for d in sorted(glob.glob("/tmp/seed_out/C??_?")) + sorted(glob.glob("/tmp/seed_out2/C??_?")) + sorted(glob.glob("/tmp/seed_out3/C??_?")) + sorted(glob.glob("/tmp/seed_out4/C??_?")) + sorted(glob.glob("/tmp/seed_out5/C??_?")) + sorted(glob.glob("/tmp/seed_out6/C??_?")) + sorted(glob.glob("/tmp/seed_out7/C??_?")) + sorted(glob.glob("/tmp/seed_out8/C??_?")) + sorted(glob.glob("/tmp/seed_out9/C??_?")):
    rp = os.path.join(d, "result.json")
    if not os.path.exists(rp):
        continue
    r = json.load(open(rp))
    sid = os.path.basename(d)
    if "/seed_out2/" in d:
        sid = sid[:3] + "_r2" + sid[3:]  # second round of independently written changes
    if "/seed_out5/" in d:
        sid = sid[:3] + "_r5" + sid[3:]
    if "/seed_out6/" in d:
        sid = sid[:3] + "_r6" + sid[3:]
    if "/seed_out7/" in d:
        sid = sid[:3] + "_r7" + sid[3:]
    if "/seed_out8/" in d:
        sid = sid[:3] + "_r8" + sid[3:]
    if "/seed_out9/" in d:
        sid = sid[:3] + "_r9" + sid[3:]
    if "/seed_out4/" in d:
        sid = sid[:3] + "_r4" + sid[3:]
    if "/seed_out3/" in d:
        sid = sid[:3] + "_r3" + sid[3:]
    meta = json.load(open(os.path.join(d, "meta.json"))) if os.path.exists(os.path.join(d, "meta.json")) else {}
    confirmed = bool(r.get("applies") and r.get("demo_fails_with_change") and r.get("demo_passes_without") and r.get("suite_passes"))
    rejected = open(os.path.join(d, "REJECTED")).read().strip() if os.path.exists(os.path.join(d, "REJECTED")) else None
    if rejected:
        # judged by me not to break the property as stated (reason kept in RESULTS.md and DESIGN 10a): not a seeded change
        rows.append((sid, sid[:3], False, r.get("caught_by", []), "REJECTED: " + rejected[:200], r))
        continue
    caught = r.get("caught_by", [])
    own = sid[:3]
    rows.append((sid, own, confirmed, caught, meta.get("title") or meta.get("what_changed", "")[:100], r))
    if not confirmed:
        continue
    dst = os.path.join(ROOT, "seeded", sid)
    os.makedirs(dst, exist_ok=True)
    for f in ("patch.diff", "demo.py"):
        shutil.copy(os.path.join(d, f), os.path.join(dst, f))
    meta2 = dict(meta)
    meta2["breaks_property"] = own
    meta2["origin"] = "written by an independent sub-agent that was given only the property text and a scratch worktree"
    meta2["confirmed_by_me"] = {
        "how": "selftest/try_seed.py: scratch copy of /repo HEAD outside /repo and /verif, git apply, pinned pytest suite, demo with and without the change, quick checks with INDIPY_SRC=<scratch copy>",
        "patch_applies": r.get("applies"),
        "suite_passes_with_change": r.get("suite_passes"),
        "suite_tail": r.get("suite_tail"),
        "demo_fails_with_change": r.get("demo_fails_with_change"),
        "demo_passes_without": r.get("demo_passes_without"),
        "quick_checks_run": {p: {"exit": v.get("rc"), "violation": v.get("violation"), "signatures": v.get("sigs")} for p, v in r.get("checks", {}).items()},
        "caught_by": caught,
    }
    json.dump(meta2, open(os.path.join(dst, "meta.json"), "w"), indent=1)

with open(os.path.join(ROOT, "selftest", "RESULTS.md"), "w") as f:
    f.write("# Seeded changes written by independent sub-agents\n\n")
    f.write("Each row: confirmed = patch applies + pinned suite passes with it + demo fails with / passes without (all re-run by me on a scratch copy).\n\n")
    f.write("| id | property | confirmed | caught by (quick checks) | first signature of the property's own check | what |\n|---|---|---|---|---|---|\n")
    for sid, own, confirmed, caught, title, r in rows:
        sig = (r.get("checks", {}).get(own, {}).get("sigs") or [""])[0][:90].replace("|", "/")
        f.write("| %s | %s | %s | %s | %s | %s |\n" % (sid, own, "yes" if confirmed else "NO", ", ".join(caught) or "**none**", sig, title.replace("|", "/")[:140]))
    n = sum(1 for r in rows if r[2])
    k = sum(1 for r in rows if r[2] and r[1] in r[3])
    k2 = sum(1 for r in rows if r[2] and r[3])
    f.write("\nconfirmed: %d; caught by the quick check of their own property: %d; caught by some quick check: %d\n" % (n, k, k2))
print(open(os.path.join(ROOT, "selftest", "RESULTS.md")).read())
