#!/venv/bin/python
"""First mutant wave: hand-written single-site changes taken from the "detects" lists of
DESIGN.md section 4.  Each is materialised as selftest/mutants/<id>/{patch.diff,meta.json}
from a textual replacement on a scratch copy of /repo's HEAD, then evaluated with
selftest/try_seed.py (--suite: the pinned suite must still pass; quick check of its property).
usage: selftest/wave1.py [--no-suite] [id ...]
"""
import json, os, shutil, subprocess, sys, tempfile
from concurrent.futures import ThreadPoolExecutor

ROOT = os.path.dirname(os.path.dirname(os.path.abspath(__file__)))
M = []


def mut(mid, prop, path, old, new, what, also=()):
    M.append(dict(id=mid, prop=prop, path=path, old=old, new=new, what=what, also=list(also)))


EL = "indi/device/properties/instance/elements.py"
VE = "indi/device/properties/instance/vectors.py"
BUF = "indi/transport/buffer.py"
RT = "indi/routing/router.py"
CL = "indi/client/client.py"
CV = "indi/client/vectors.py"
CE = "indi/client/elements.py"
TCP = "indi/transport/server/tcp.py"
CTCP = "indi/transport/client/tcp.py"
BASE = "indi/message/base.py"
DRV = "indi/device/driver.py"
VAL = "indi/device/values.py"

mut("m01a", "C01", EL, "        self._value = self.check_value(value)\n        self.device.send_message(self._vector.to_set_message())\n",
    "        self.device.send_message(self._vector.to_set_message())\n        self._value = self.check_value(value)\n", "publish before store in the value setter", ["C14", "C09"])
mut("m01b", "C01", "indi/device/properties/instance/group.py", "        self._enabled = value\n        for k, v in self._vectors.items():\n            self.device.send_message(v.to_def_message())\n            self.device.send_message(v.to_set_message())\n",
    "        for k, v in self._vectors.items():\n            self.device.send_message(v.to_def_message())\n            self.device.send_message(v.to_set_message())\n        self._enabled = value\n", "Group.enabled publishes before flipping the flag", ["C07"])
mut("m01c", "C01", CV, "            old_state = self.state\n            self.state = msg.state\n", "            old_state = self.state\n            if msg.children:\n                self.state = msg.state\n", "client ignores the state of a set message without children", ["C15", "C16"])
mut("m02a", "C02", BUF, "        while end < len(data) - 1:", "        while end < len(data) - 2:", "off-by-one in the scan bound", ["C11"])
mut("m02b", "C02", BUF, "            if not message and end is None:\n                if (\n                    self.max_buffer_size_before_frontal_cleanup is not None\n                    and self.data_len > self.max_buffer_size_before_frontal_cleanup",
    "            if not message and end is None:\n                if (\n                    self.max_buffer_size_before_frontal_cleanup is not None\n                    and self.data_len >= self.max_buffer_size_before_frontal_cleanup", "threshold test > became >=", ["C11"])
mut("m02c", "C02", BUF, "            if not message and end is None:\n                if (\n                    self.max_buffer_size_before_frontal_cleanup is not None\n                    and self.data_len > self.max_buffer_size_before_frontal_cleanup\n                ):\n                    self._cleanup_beginning()\n                    continue\n                break\n",
    "            if not message and end is None:\n                if self.max_buffer_size_before_frontal_cleanup is None:\n                    continue\n                if self.data_len > self.max_buffer_size_before_frontal_cleanup:\n                    self._cleanup_beginning()\n                    continue\n                break\n", "livelock with the threshold disabled (D4 reintroduced)", ["C08", "C11"])
mut("m02d", "C02", BUF, "            self.data = self.data[end:]\n            self._cleanup_buffer()\n            if message:\n                callback(message)\n", "            self.data = self.data[end:]\n            self._cleanup_buffer()\n            if message:\n                callback(message)\n                break\n", "process() returns after the first delivered message (promptness)", ["C11", "C15"])
mut("m03a", "C03", BASE, "        if xml.text:\n            kwargs[\"value\"] = xml.text.strip()\n\n        return message_class(**kwargs)", "        if xml.text:\n            kwargs[\"value\"] = \" \".join(xml.text.split())\n\n        return message_class(**kwargs)", "message text: inner whitespace collapsed", [])
mut("m03b", "C03", BASE, "        kwargs[\"value\"] = xml.text.strip() if xml.text else None\n", "        kwargs[\"value\"] = \" \".join(xml.text.split()) if xml.text else None\n", "part text: inner whitespace/newlines collapsed", ["C06"])
mut("m04a", "C04", RT, "                if not device == sender and device.accepts(message.device):", "                if device.accepts(message.device):", "sender exclusion for devices removed", [])
mut("m04b", "C04", DRV, "        return device is None or self.name == device", "        return not device or self.name == device", "empty device name treated as broadcast (harmless?)", [])
mut("m05a", "C05", RT, "        self.blob_routing[sender][message.device] = message.value", "        for dev in list(self.blob_routing[sender]) + [message.device]:\n            self.blob_routing[sender][dev] = message.value", "enableBLOB overwrites the policy of every device already configured by that client", [])
mut("m05b", "C05", RT, "        if client in self.blob_routing:\n            del self.blob_routing[client]", "        pass", "BLOB settings survive unregistration", ["C18"])
mut("m06a", "C06", VE, "            element = self._elements_by_name.get(child.name)\n            if element is not None:\n                element.set_value_from_message(child)", "            element = self._elements_by_name.get(child.name) or self._elements.get(child.name.lower())\n            if element is not None:\n                element.set_value_from_message(child)", "element lookup falls back to the attribute key (case-folded name)", ["C12"])
mut("m07a", "C07", DRV, "                if msg.name in self._vectors:\n                    v = self._vectors[msg.name]\n                    self.send_message(v.to_def_message())", "                if msg.name in self._vectors:\n                    for k, v in self._vectors.items():\n                        self.send_message(v.to_def_message())", "named request answered with every definition", [])
mut("m07b", "C07", VE, "        elements = tuple(\n            e.to_def_message() for k, e in self._elements.items() if e.enabled\n        )", "        elements = tuple(e.to_def_message() for k, e in self._elements.items())", "disabled elements listed in definitions", [])
mut("m08a", "C08", VAL, "        return base64.b64encode(self.binary).decode(\"latin1\")", "        return base64.urlsafe_b64encode(self.binary).decode(\"latin1\")", "url-safe base64 alphabet on the wire (only payloads producing + or / differ)", ["C06"])
mut("m09a", "C09", VE, "                for k, el in self._elements.items():\n                    if el != sender and el._value == const.SwitchState.ON:\n                        el._value = const.SwitchState.OFF", "                for k, el in self._elements.items():\n                    if el != sender and el._value == const.SwitchState.ON:\n                        el._value = const.SwitchState.OFF\n                        break", "only the first other On switch is turned off", [])
mut("m10a", "C10", VAL, "        w, f = divmod(int(round(abs(n) * base)), base)", "        w, f = divmod(int(abs(n) * base), base)", "truncation instead of rounding to the format's resolution", [])
mut("m11a", "C11", BUF, "                except Exception:\n                    # a complete", "                except ValueError:\n                    # a complete", "narrowed except: TypeError of a missing required attribute escapes process()", ["C12"])
mut("m13a", "C13", "indi/message/defs.py", "        self.rule = checks.dictionary(rule, const.SwitchRule)", "        self.rule = rule", "switch rule no longer validated", [])
mut("m14a", "C14", EL, "        if prev_value != self._value:\n            e = events.Change", "        if True:\n            e = events.Change", "Change raised even when the value did not change", [])
mut("m14b", "C14", EL, "        if not e.prevent_default:\n            self.value = value", "        self.value = value", "veto ignored", [])
mut("m15a", "C15", CV, "                el = self.elements.get(ch.name)\n                if el:\n                    el.process_message(ch)", "                el = self.elements.get(ch.name)\n                if el is None and self.elements:\n                    el = list(self.elements.values())[-1] if len(msg.children) == 1 and len(self.elements) == 1 else None\n                if el:\n                    el.process_message(ch)", "single-element property: an update naming an unknown element is applied to the only element", ["C16"])
mut("m16a", "C16", CE, "            if self._value != old_value:\n                event = ValueUpdate", "            if self._value != old_value or old_value is None:\n                event = ValueUpdate", "spurious ValueUpdate when the old value is None", ["C15"])
mut("m17a", "C17", CL, "            await asyncio.sleep(timeout)\n            if not lock.is_set():\n                result.timeout = True\n                lock.set()", "            await asyncio.sleep(timeout)\n            result.timeout = True\n            lock.set()", "timeout flag set even after a match (both outcomes)", [])
mut("m17b", "C17", CL, "                while not lock.is_set():\n                    self.send_message(msg)\n                    await asyncio.sleep(polling_interval)", "                while True:\n                    self.send_message(msg)\n                    await asyncio.sleep(polling_interval)\n                    if lock.is_set():\n                        break", "one extra poll after completion", [])
mut("m18a", "C18", TCP, "            conn.close()\n            cls.connections.remove(conn)", "            conn.writer.close()\n            cls.connections.remove(conn)", "handler closes the writer but does not unregister from the router", [])
mut("m19a", "C19", TCP, "        async with self.sender_lock:\n            logger.debug(\"TCP: sending data: %s\", data)\n            self.writer.write(data)\n            await self.writer.drain()", "        await self.writer.drain()\n        logger.debug(\"TCP: sending data: %s\", data)\n        self.writer.write(data)", "drain-before-write without the lock (order lost when flow control pauses)", [])
mut("m19b", "C19", CTCP, "        async with self.sender_lock:\n            logger.debug(\"TCP: sending data: %s\", data)\n            self.writer.write(data)\n            await self.writer.drain()", "        await self.writer.drain()\n        self.writer.write(data)", "client connection: drain-before-write without the lock", [])
mut("m20a", "C20", BASE, "        if getattr(self, \"value\", None) is not None:\n            res[\"_value\"] = str(self.value)\n\n        if hasattr(self, \"children\"):", "        if hasattr(self, \"children\"):", "message-level text value ignored by ==", [])

# --- second hand-written wave: one change per DIMENSION added after round 5 (DESIGN 10a, wave S5), none of them a
# variation of a seeded change
mut("m07c", "C07", DRV, "                if msg.name in self._vectors:\n                    v = self._vectors[msg.name]\n                    self.send_message(v.to_def_message())",
    "                if msg.name in self._vectors:\n                    cache = self.__dict__.setdefault(\"_def_cache\", {})\n                    if msg.name not in cache:\n                        cache[msg.name] = self._vectors[msg.name].to_def_message()\n                    self.send_message(cache[msg.name])", "named request answered from a cache of definitions that is never invalidated (primed histories)", ["C01"])
mut("m04c", "C04", RT, "            for device in self.devices:\n                if not device == sender and device.accepts(message.device):\n                    device.message_from_client(message)",
    "            cache = self.__dict__.setdefault(\"_accept_cache\", {})\n            if message.device not in cache:\n                cache[message.device] = [d for d in self.devices if d.accepts(message.device)]\n            for device in cache[message.device]:\n                if not device == sender:\n                    device.message_from_client(message)", "accepting devices cached per device name, not invalidated when a device registers (primed histories)", ["C05"])
mut("m02e", "C02", CTCP, "        self.buffer = Buffer()\n        if for_blobs:\n            self.buffer.max_buffer_size_before_frontal_cleanup = None",
    "        self.buffer = self.shared_buffers.setdefault(bool(for_blobs) and False, Buffer())\n        if for_blobs:\n            self.buffer.max_buffer_size_before_frontal_cleanup = None\n    shared_buffers: dict = {}\n\n    def _unused(self):\n        pass", "client connections of one process share one receive buffer (two connections interleaved)", ["C01", "C08"])
mut("m09b", "C09", EL, "        if not e.prevent_default:\n            self.value = value", "        if not e.prevent_default:\n            self.value = value\n        elif hasattr(self._vector, \"apply_rule\"):\n            self._vector.apply_rule(self, value)", "a deferred switch write still releases the other switches (handler modes)", ["C14"])
mut("m19c", "C19", TCP, "    def message_from_device(self, message: IndiMessage):\n        data = message.to_string()\n        asyncio.get_running_loop().create_task(self.send(data))",
    "    def message_from_device(self, message: IndiMessage):\n        data = message.to_string()\n        self.backlog = getattr(self, \"backlog\", 0) + 1\n        if self.backlog > 1000 and self.writer.transport.is_closing() is False and self.sender_lock.locked():\n            return\n        asyncio.get_running_loop().create_task(self.send(data))", "messages silently dropped for a connection with a deep backlog (deep-backlog dimension: the stalled connection's own order)", [])



def materialise(m):
    d = os.path.join(ROOT, "selftest", "mutants", m["id"])
    os.makedirs(d, exist_ok=True)
    tmp = tempfile.mkdtemp(prefix="/tmp/indipy-w1-")
    try:
        subprocess.run("git -C /repo archive HEAD | tar -x -C %s" % tmp, shell=True, check=True)
        subprocess.run("cd %s && git init -q && git add -A && git -c user.email=a@b -c user.name=x commit -qm base" % tmp, shell=True, check=True)
        p = os.path.join(tmp, m["path"])
        s = open(p).read()
        if s.count(m["old"]) != 1:
            return "old text occurs %d times in %s" % (s.count(m["old"]), m["path"])
        open(p, "w").write(s.replace(m["old"], m["new"]))
        diff = subprocess.run(["git", "-C", tmp, "diff"], capture_output=True, text=True).stdout
        open(os.path.join(d, "patch.diff"), "w").write(diff)
        json.dump(dict(property=m["prop"], what_changed=m["what"], source="hand-written, DESIGN.md section 4 'detects' lists", files=[m["path"]]), open(os.path.join(d, "meta.json"), "w"), indent=1)
    finally:
        shutil.rmtree(tmp, ignore_errors=True)
    return None


def evaluate(m, suite):
    d = os.path.join(ROOT, "selftest", "mutants", m["id"])
    props = ",".join([m["prop"]] + m["also"])
    cmd = [os.path.join(ROOT, "selftest", "try_seed.py"), d, "--props=" + props] + (["--suite"] if suite else [])
    r = subprocess.run(cmd, capture_output=True, text=True)
    try:
        out = json.loads(r.stdout)
    except Exception:
        out = {"error": (r.stdout + r.stderr)[-500:]}
    json.dump(out, open(os.path.join(d, "result.json"), "w"), indent=1)
    return out


if __name__ == "__main__":
    args = [a for a in sys.argv[1:] if not a.startswith("--")]
    suite = "--no-suite" not in sys.argv
    todo = [m for m in M if not args or m["id"] in args]
    for m in todo:
        err = materialise(m)
        if err:
            print(m["id"], "CANNOT MATERIALISE:", err)
            m["skip"] = True
    todo = [m for m in todo if not m.get("skip")]
    with ThreadPoolExecutor(3) as ex:
        for m, out in zip(todo, ex.map(lambda m: evaluate(m, suite), todo)):
            print(m["id"], m["prop"], "suite=%s" % out.get("suite_passes"), "caught_by=%s" % out.get("caught_by"), {p: v.get("rc") for p, v in out.get("checks", {}).items()}, flush=True)
