#!/bin/bash
# Consolidated re-evaluation of every deliberate change with the machinery as committed:
#   all rounds of seeded changes (own property's quick check; suite verdicts kept), hand-written waves, revert wave.
cd "$(dirname "$0")/.."
for d in /tmp/seed_out /tmp/seed_out2 /tmp/seed_out3 /tmp/seed_out4 /tmp/seed_out5 /tmp/seed_out6 /tmp/seed_out7 /tmp/seed_out8; do
  echo "== $d"; selftest/eval_seeds.py --dir=$d --redo-checks --own-only --par=3
done
echo "== wave1"; selftest/wave1.py --no-suite
echo "== reverts"; selftest/revert_wave.py
echo "== done"
