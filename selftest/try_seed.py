#!/venv/bin/python
"""Evaluate one seeded change: selftest/try_seed.py <dir with patch.diff, demo.py, meta.json> [--suite] [--all|--props C01,C02]
 - scratch copy of /repo HEAD outside /repo and /verif, patch applied there (never in /repo)
 - demo must fail on the scratch copy and pass on /repo
 - --suite: the pinned test suite must pass on the scratch copy
 - runs the quick checks with INDIPY_SRC=<scratch> and reports which ones raise VIOLATION
Prints a JSON summary."""
import json, os, shutil, subprocess, sys, tempfile, time
ROOT = os.path.dirname(os.path.dirname(os.path.abspath(__file__)))
d = os.path.abspath(sys.argv[1])
args = sys.argv[2:]
meta = json.load(open(os.path.join(d, "meta.json"))) if os.path.exists(os.path.join(d, "meta.json")) else {}
props = [meta.get("property")] if meta.get("property") else []
for a in args:
    if a.startswith("--props"):
        props = a.split("=", 1)[1].split(",")
if "--all" in args:
    props = [json.loads(l)["id"] for l in open(os.path.join(ROOT, "properties.jsonl"))]
tmp = tempfile.mkdtemp(prefix="/tmp/indipy-seed-")
out = {"dir": d, "props": props}
try:
    subprocess.run("git -C /repo archive HEAD | tar -x -C %s" % tmp, shell=True, check=True)
    r = subprocess.run(["git", "apply", "--directory=" + os.path.basename(tmp), os.path.join(d, "patch.diff")], cwd="/tmp", capture_output=True, text=True)
    if r.returncode != 0:
        r = subprocess.run(["patch", "-p1", "-s", "-d", tmp, "-i", os.path.join(d, "patch.diff")], capture_output=True, text=True)
    out["applies"] = r.returncode == 0
    if not out["applies"]:
        out["apply_err"] = (r.stdout + r.stderr)[-400:]
        print(json.dumps(out, indent=1)); sys.exit(0)
    demo = os.path.join(d, "demo.py")
    if os.path.exists(demo):
        r1 = subprocess.run(["timeout", "120", "/venv/bin/python", demo], cwd=tmp, env=dict(os.environ, INDI_SRC=tmp), capture_output=True, text=True)
        r0 = subprocess.run(["timeout", "120", "/venv/bin/python", demo], cwd="/repo", env=dict(os.environ, INDI_SRC="/repo"), capture_output=True, text=True)
        out["demo_fails_with_change"] = r1.returncode != 0
        out["demo_passes_without"] = r0.returncode == 0
        out["demo_tail"] = (r1.stdout + r1.stderr)[-300:]
    if "--suite" in args:
        t0 = time.time()
        r = subprocess.run(["/venv/bin/python", "-m", "pytest", "-q", "-p", "no:cacheprovider", "--timeout=900", "-x"], cwd=tmp, capture_output=True, text=True)
        out["suite_passes"] = r.returncode == 0
        out["suite_tail"] = r.stdout.strip().splitlines()[-1] if r.stdout.strip() else ""
        out["suite_s"] = round(time.time() - t0)
    res = {}
    for p in props:
        t0 = time.time()
        r = subprocess.run([os.path.join(ROOT, "check"), p, "--tier", "quick", "--no-evidence"], env=dict(os.environ, INDIPY_SRC=tmp), capture_output=True, text=True, cwd=ROOT)
        sigs = [l.strip()[11:140] for l in r.stdout.splitlines() if l.strip().startswith("signature:")]
        res[p] = {"rc": r.returncode, "violation": ("VIOLATION property=%s" % p) in r.stdout, "sigs": sigs[:4], "wall": round(time.time() - t0, 1)}
        if r.returncode not in (0, 1):
            res[p]["err"] = (r.stdout + r.stderr)[-600:]
    out["checks"] = res
    out["caught_by"] = [p for p, v in res.items() if v["violation"]]
finally:
    shutil.rmtree(tmp, ignore_errors=True)
print(json.dumps(out, indent=1))
