#!/venv/bin/python
"""Write the task descriptions for a round of independently seeded changes:
    selftest/make_prompts.py <round> [ID ...]   ->  /tmp/seed_out<round>/<ID>.prompt.txt
A sub-agent gets ONLY such a file and its own scratch worktree /tmp/seed<round>_<ID> (nothing from /verif).
The titles of the changes kept (or just written) for the property so far are listed so that new mechanisms are found."""
import glob, json, os, sys

ROOT = os.path.dirname(os.path.dirname(os.path.abspath(__file__)))
rnd = sys.argv[1]
ids = sys.argv[2:] or ["C%02d" % i for i in range(1, 21)]
props = {json.loads(l)["id"]: json.loads(l) for l in open(os.path.join(ROOT, "properties.jsonl"))}
out = "/tmp/seed_out%s" % rnd
os.makedirs(out, exist_ok=True)
for pid in ids:
    p = props[pid]
    titles = []
    for d in sorted(glob.glob(os.path.join(ROOT, "seeded", pid + "*"))) + sorted(glob.glob("/tmp/seed_out[0-9]*/%s_?" % pid)):
        mp = os.path.join(d, "meta.json")
        if os.path.exists(mp):
            m = json.load(open(mp))
            t = m.get("title") or m.get("what_changed", "")[:160]
            if t and t not in titles:
                titles.append(t)
    wt = "/tmp/seed%s_%s" % (rnd, pid)
    text = f"""You are helping to evaluate a verification framework for the Python library wlatanowicz/indipy (a pure-Python implementation of the INDI astronomy instrument protocol: XML message codec, stream framing buffer, device driver framework, message router, asyncio client).

Your own scratch git worktree of the library is at: {wt}   (work ONLY there; never touch /repo or /verif, and do not read anything under /verif)

The semantic property you are concerned with is:

{pid} - {p['title']}

Statement: {p['statement']}

Quantified over: {p['quantifier']['text']}

Code anchors: {', '.join(p['anchors']['files'])}

Earlier seeded changes for this property already exist; do NOT repeat their mechanisms or code sites, find genuinely different ones (other files, other clauses of the statement, other triggering conditions, other quantifier dimensions):
""" + "\n".join("- " + t for t in titles) + f"""

TASK: produce TWO different, realistic changes ("seeded defects") to the library source under {wt}/indi/ that each BREAK this property while the code still imports/compiles and the repository's existing test suite still passes. Each change should look like a plausible slip or a well-meant refactoring/optimisation that a maintainer could commit (not sabotage-looking code, no dead give-away comments), and - importantly - it must need something SPECIFIC to manifest: a particular interleaving or completion order, a fault at a particular point, a multi-step sequence of operations, an unusual input shape/value, or two cooperating sites that each look fine alone. Do NOT produce a change that ordinary use would expose at once (e.g. breaking every message). The two changes must use different mechanisms / different code sites. The change must really violate the property AS STATED (re-read the statement: behaviour the statement leaves open, or that the INDI protocol explicitly allows, is not a violation).

For EACH change k in {{1,2}} deliver a directory {out}/{pid}_k/ containing:
  * patch.diff   - `git diff` output (relative to the worktree's HEAD) of the change, applicable with `git apply` at the repository root; only files under indi/ may change;
  * demo.py      - a small self-contained demonstration program that exits 0 on the unchanged library and exits non-zero (e.g. failing assertion, with a clear message) with the change applied. It must start with:
        import os, sys
        sys.path.insert(0, os.environ.get("INDI_SRC", os.getcwd()))
    so that it tests the tree named by INDI_SRC (or the current directory). Use only the library's public/real classes (you may use asyncio, fake streams, mocks). It must terminate within 60 seconds in both cases (guard against hangs with timeouts).
  * meta.json    - {{"property": "{pid}", "title": "...", "what_changed": "...", "needs_to_manifest": "...", "files": [...], "commands_run": [...]}}

You MUST verify all of the following yourself, in the worktree, and report the outcome:
  1. with the change applied, the existing suite passes:  cd {wt} && /venv/bin/python -m pytest -q -p no:cacheprovider --timeout=900   (takes 2-4 minutes; 333 tests must pass; the tests import the worktree's own indi package because of the working directory)
  2. with the change applied, `cd {wt} && /venv/bin/python {out}/{pid}_k/demo.py` exits non-zero;
  3. with the change reverted (`git -C {wt} checkout -- .`), the same demo exits 0.
Leave the worktree clean (git checkout -- .) when you are done, and do not commit anything.

Use /venv/bin/python (Python 3.12, the library's dependencies incl. aiofiles and pytest are installed there). There is no network. Read the library source as needed (about 3 kLoC under indi/).

Finish with a short report: for each change, one paragraph on what it breaks and what is needed for it to manifest, and the results of checks 1-3.
"""
    open(os.path.join(out, pid + ".prompt.txt"), "w").write(text)
    print(pid, len(titles), "earlier titles")
