#!/venv/bin/python
"""Second mutant wave: revert every fix: commit (one at a time, on a scratch copy of /repo's HEAD
outside /repo and /verif) and run the quick check of the property the fix is logged under.
Each revert must bring a VIOLATION back - which is also what shows that a 'fixed' entry suppresses nothing.
usage: selftest/revert_wave.py [commit ...]   (default: all fixed: entries of known_findings.json)"""
import json, os, re, shutil, subprocess, sys, tempfile
ROOT = os.path.dirname(os.path.dirname(os.path.abspath(__file__)))
kf = json.load(open(os.path.join(ROOT, "known_findings.json")))
entries = []
for line in kf["fixed"]:
    m = re.match(r"fixed: property=(C\d+) ([0-9a-f]{7,}) (.*)", line)
    entries.append((m.group(2), m.group(1), m.group(3)))
extra = {"C02": ["C08", "C11"], "C05": ["C08"], "C15": ["C08"], "C12": ["C11"]}
want = sys.argv[1:]
out = []
for commit, prop, what in entries:
    if want and commit not in want:
        continue
    tmp = tempfile.mkdtemp(prefix="/tmp/indipy-revert-")
    try:
        subprocess.run("git -C /repo archive HEAD | tar -x -C %s" % tmp, shell=True, check=True)
        diff = subprocess.run(["git", "-C", "/repo", "show", "--format=", commit], capture_output=True, text=True, check=True).stdout
        r = subprocess.run(["patch", "-R", "-p1", "-s", "-d", tmp], input=diff, text=True, capture_output=True)
        if r.returncode != 0:
            out.append((commit, prop, "REVERT-DOES-NOT-APPLY (later fix touches the same lines)", ""))
            print(out[-1]); continue
        env = dict(os.environ, INDIPY_SRC=tmp)
        r = subprocess.run([os.path.join(ROOT, "check"), prop, "--tier", "quick", "--no-evidence"], env=env, capture_output=True, text=True, cwd=ROOT)
        sigs = [l.strip() for l in r.stdout.splitlines() if l.strip().startswith("signature:")]
        verdict = "KILLED" if r.returncode == 1 and "VIOLATION property=%s" % prop in r.stdout else ("HARNESS-ERROR rc=%d" % r.returncode if r.returncode not in (0, 1) else "SURVIVED")
        out.append((commit, prop, verdict, "; ".join(s[11:90] for s in sigs[:3])))
        print(out[-1], flush=True)
        if verdict != "KILLED":
            print(r.stdout[-1500:], r.stderr[-1500:])
    finally:
        shutil.rmtree(tmp, ignore_errors=True)
with open(os.path.join(ROOT, "selftest", "REVERTS.md"), "w") as f:
    f.write("# Revert wave: each fix: commit reverted on a scratch copy, quick check of its property\n\n| commit | property | verdict | first signatures |\n|---|---|---|---|\n")
    for o in out:
        f.write("| %s | %s | %s | %s |\n" % o)
