#!/venv/bin/python
"""Line coverage of /repo/indi reached by the quick (or thorough) tier of the checks.

Not evidence and not a deciding step: a gap finder for the harness author.  Every worker
of the fork pool starts coverage.py on its first shard and saves after each shard; the
data files are combined and reported per file with the missing line ranges.

    selftest/cover.py [--tier quick] [C01 C02 ...]        (writes selftest/COVERAGE.md)
"""
import os
import shutil
import sys
import tempfile

ROOT = os.path.dirname(os.path.dirname(os.path.abspath(__file__)))
sys.path.insert(0, ROOT)
SRC = os.environ.get("INDIPY_SRC", "/repo")
sys.path.insert(0, SRC)
os.environ.setdefault("PYTHONHASHSEED", "0")
os.environ.setdefault("INDIPY_VERIF", "1")
os.environ.setdefault("COVERAGE_CORE", "sysmon")

import coverage  # noqa: E402

OUT = tempfile.mkdtemp(prefix="indicov_")
COV = coverage.Coverage(data_file=os.path.join(OUT, "cov"), data_suffix=True, include=[SRC + "/indi/*"])
COV.start()

import mc.cli as cli  # noqa: E402

_orig = cli._run_shard


_mine = {"pid": os.getpid(), "cov": COV}


def _run(w):
    if _mine["pid"] != os.getpid():
        # forked worker: the inherited collector would write to the parent's data file; start an own one
        try:
            COV.stop()
        except Exception:  # noqa
            pass
        c = coverage.Coverage(data_file=os.path.join(OUT, "cov"), data_suffix="w%d" % os.getpid(), include=[SRC + "/indi/*"])
        c.start()
        _mine["pid"], _mine["cov"] = os.getpid(), c
    try:
        return _orig(w)
    finally:
        _mine["cov"].save()


cli._run_shard = _run


def main():
    args = sys.argv[1:]
    tier = "quick"
    if "--tier" in args:
        i = args.index("--tier")
        tier = args[i + 1]
        del args[i : i + 2]
    props = args or ["C%02d" % i for i in range(1, 21)]
    for p in props:
        rc = cli.main([p, "--tier", tier, "--no-evidence"])
        print("== %s rc=%s" % (p, rc), flush=True)
    COV.stop()
    COV.save()
    c = coverage.Coverage(data_file=os.path.join(OUT, "cov"), include=[SRC + "/indi/*"])
    c.combine([OUT])
    c.save()
    lines = ["# Lines of indi/ reached by the %s tier of %s\n" % (tier, " ".join(props)), "", "| file | statements | missed | missing lines |", "|---|---|---|---|"]
    data = c.get_data()
    import glob

    tot = miss = 0
    for f in sorted(glob.glob(SRC + "/indi/**/*.py", recursive=True)):
        try:
            _, stmts, _, missing, fmt = c.analysis2(f)
        except Exception as e:  # noqa
            lines.append("| %s | ? | ? | %r |" % (f[len(SRC) + 1 :], e))
            continue
        tot += len(stmts)
        miss += len(missing)
        if missing:
            lines.append("| %s | %d | %d | %s |" % (f[len(SRC) + 1 :], len(stmts), len(missing), fmt))
    lines.append("")
    lines.append("total statements %d, missed %d (%.1f%% reached)" % (tot, miss, 100.0 * (tot - miss) / max(1, tot)))
    open(os.path.join(ROOT, "selftest", "COVERAGE.md"), "w").write("\n".join(lines) + "\n")
    print("\n".join(lines))
    shutil.rmtree(OUT, ignore_errors=True)


if __name__ == "__main__":
    main()
