#!/venv/bin/python
"""Re-run the demonstration of every kept seeded change against /repo's CURRENT HEAD (scratch copies under /tmp):
the patch must still apply and the demonstration must still fail with it (a later fix: commit may have neutralised it)."""
import glob, os, shutil, subprocess, sys, tempfile
from concurrent.futures import ThreadPoolExecutor
ROOT = os.path.dirname(os.path.dirname(os.path.abspath(__file__)))
seeds = sorted(glob.glob(os.path.join(ROOT, "seeded", "*")))
def work(chunk):
    tmp = tempfile.mkdtemp(prefix="/tmp/indipy-demochk-")
    out = []
    try:
        subprocess.run("git -C /repo archive HEAD | tar -x -C %s" % tmp, shell=True, check=True)
        for d in chunk:
            a = subprocess.run(["patch", "-p1", "-s", "-d", tmp, "-i", os.path.join(d, "patch.diff")], capture_output=True, text=True)
            if a.returncode != 0:
                out.append((os.path.basename(d), "PATCH-DOES-NOT-APPLY"))
                subprocess.run("rm -rf %s/indi && git -C /repo archive HEAD indi | tar -x -C %s" % (tmp, tmp), shell=True, check=True)
                continue
            try:
                r = subprocess.run(["/venv/bin/python", os.path.join(d, "demo.py")], cwd=tmp, env=dict(os.environ, INDI_SRC=tmp, PYTHONDONTWRITEBYTECODE="1"), capture_output=True, text=True, timeout=150)
                rc = r.returncode
            except subprocess.TimeoutExpired:
                rc = "timeout"
            out.append((os.path.basename(d), "fails-with-change" if rc != 0 else "DEMO-PASSES-WITH-CHANGE"))
            subprocess.run(["patch", "-R", "-p1", "-s", "-d", tmp, "-i", os.path.join(d, "patch.diff")], capture_output=True)
    finally:
        shutil.rmtree(tmp, ignore_errors=True)
    return out
N = 6
chunks = [seeds[i::N] for i in range(N)]
bad = 0
with ThreadPoolExecutor(N) as ex:
    for out in ex.map(work, chunks):
        for sid, v in out:
            if v != "fails-with-change":
                bad += 1
                print(sid, v, flush=True)
print("seeds re-checked: %d; no longer failing: %d" % (len(seeds), bad))
