#!/venv/bin/python
"""Markdown table of what the last run of every check covered (from evidence/*.json)."""
import json, glob, os
ROOT = os.path.dirname(os.path.dirname(os.path.abspath(__file__)))
print("| ID | tier | level | states | transitions | traces on impl | evaluations | distinct | exhaustive | wall s |")
print("|---|---|---|---|---|---|---|---|---|---|")
for f in sorted(glob.glob(os.path.join(ROOT, "evidence", "C*.json"))):
    e = json.load(open(f)); c = e["coverage"]
    print("| %s | %s | %s | %s | %s | %s | %s | %s | %s | %s |" % (e["property_id"], e["tier"], e["level"], c.get("states", ""), c.get("transitions", ""), c.get("traces_validated_against_impl", ""), c.get("evaluations", ""), c.get("distinct_nontrivial", ""), c.get("exhaustive"), e["wall_s"]))
