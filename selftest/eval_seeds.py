#!/venv/bin/python
"""Evaluate every seeded change under /tmp/seed_out/<ID>_<k>/ that has no result.json yet:
suite + demo + quick check of its property (and optionally related ones)."""
import glob, json, os, subprocess, sys
from concurrent.futures import ThreadPoolExecutor
ROOT = os.path.dirname(os.path.dirname(os.path.abspath(__file__)))
REL = {"C01": ["C07", "C15"], "C02": ["C11"], "C05": ["C04"], "C06": ["C12"], "C08": ["C06"], "C11": ["C02"], "C12": ["C06"], "C15": ["C16"], "C16": ["C15"], "C18": ["C12"], "C19": [], "C09": ["C06"], "C07": ["C01"], "C14": ["C09"], "C17": [], "C04": ["C05"]}
REDO = "--redo-checks" in sys.argv  # re-run demo + checks with the current machinery, keep the suite verdict already obtained
SEEDDIR = next((a.split("=", 1)[1] for a in sys.argv if a.startswith("--dir=")), "/tmp/seed_out")
dirs = sorted(d for d in glob.glob(SEEDDIR + "/C??_?") if os.path.exists(os.path.join(d, "patch.diff")) and (REDO or not os.path.exists(os.path.join(d, "result.json"))))
ONLY = next((a.split("=", 1)[1].split(",") for a in sys.argv if a.startswith("--only=")), None)  # property ids
if ONLY:
    dirs = [d for d in dirs if os.path.basename(d)[:3] in ONLY]
def ev(d):
    prop = os.path.basename(d)[:3]
    props = ",".join([prop] + ([] if "--own-only" in sys.argv else REL.get(prop, [])))
    prev = {}
    if REDO and os.path.exists(os.path.join(d, "result.json")):
        prev = json.load(open(os.path.join(d, "result.json")))
    r = subprocess.run([os.path.join(ROOT, "selftest", "try_seed.py"), d, "--props=" + props] + ([] if ("--no-suite" in sys.argv or REDO) else ["--suite"]), capture_output=True, text=True)
    try:
        out = json.loads(r.stdout)
    except Exception:
        out = {"error": (r.stdout + r.stderr)[-600:]}
    for k in ("suite_passes", "suite_tail", "suite_s"):
        if k in prev and k not in out:
            out[k] = prev[k]
    json.dump(out, open(os.path.join(d, "result.json"), "w"), indent=1)
    return d, out
PAR = int(next((a.split("=", 1)[1] for a in sys.argv if a.startswith("--par=")), "2"))
with ThreadPoolExecutor(PAR) as ex:
    for d, out in ex.map(ev, dirs):
        print(os.path.basename(d), "applies=%s demo_fail=%s demo_pass=%s suite=%s caught_by=%s" % (out.get("applies"), out.get("demo_fails_with_change"), out.get("demo_passes_without"), out.get("suite_passes"), out.get("caught_by")), {p: v.get("rc") for p, v in out.get("checks", {}).items()}, flush=True)
