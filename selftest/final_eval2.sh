#!/bin/bash
# Second consolidated re-evaluation (machinery as committed), most informative first:
#   round 8 completely; the seeds of the properties whose checks changed last (C06, C08) in every round;
#   hand-written wave and revert wave; then the older rounds that were last evaluated with older machinery.
cd "$(dirname "$0")/.."
echo "== round 8"; selftest/eval_seeds.py --dir=/tmp/seed_out8 --redo-checks --own-only --par=3
for d in /tmp/seed_out /tmp/seed_out2 /tmp/seed_out3 /tmp/seed_out4 /tmp/seed_out5 /tmp/seed_out6 /tmp/seed_out7; do
  echo "== C06,C08 of $d"; selftest/eval_seeds.py --dir=$d --redo-checks --own-only --par=3 --only=C06,C08
done
echo "== wave1"; selftest/wave1.py --no-suite
echo "== reverts"; selftest/revert_wave.py
echo "== rest of round 1"; selftest/eval_seeds.py --dir=/tmp/seed_out --redo-checks --own-only --par=3 --only=C13,C14,C15,C16,C17,C18,C19,C20
for d in /tmp/seed_out2 /tmp/seed_out3 /tmp/seed_out4; do
  echo "== $d"; selftest/eval_seeds.py --dir=$d --redo-checks --own-only --par=3
done
echo "== done"
